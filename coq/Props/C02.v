(* Props/C02.v — every accepted call gets exactly one correctly routed reply.
   Only statements, [exact] proofs and Print Assumptions.  The machine is Broker/Model.v:
   [step s e fresh bserial] = one dequeued broker event handled to quiescence (handler + work loop),
   returning the new state and the outputs (destination, message, version tag of the producer).
   [conns s !! c = Some cs]: c is connected; [cs_alive cs]: its receiver has not been dropped;
   [cs_calls cs !! serial = Some (b, callee)]: c's call with that serial is pending under broker
   serial b; [calls s !! b = Some cl]: the broker's record of it (caller, caller serial, service key,
   aborted flag); [svc_by_cookie]/[owner_of_svc]: the service a cookie names and its object's owner.
   [is_call cs x serial sc fn fver v]: x is CallFunction, or CallFunction2 from a connection of
   protocol version >= 19, with these fields.  [nrep c s o]: number of CallFunctionReply outputs
   with serial s to connection c in the output list o; [pend c s st]: 1 if serial s is pending at
   c in state st, else 0.  Facts that hold by the broker's consistency invariant (Broker/Inv.v,
   proved separately) are explicit hypotheses here. *)
From stdpp Require Import gmap list.
From RecordUpdate Require Import RecordSet.
Import RecordSetNotations.
From Aldrin Require Import gen.BrokerConsts Broker.Model Broker.Run Broker.OutKinds Broker.EventProofs
  Broker.CallProofs Broker.CallInvProofs Props.C02_lemmas.
From Aldrin Require Import Broker.CallMoreProofs.
From Aldrin Require Import Broker.SerialProofs Props.C11_lemmas.
Local Open Scope N_scope.

(* (a) the service does not exist: InvalidService with the caller's serial, nothing else happens *)
Theorem C02_invalid_service : forall s c cs x serial sc fn fver v f b,
  conns s !! c = Some cs -> cs_alive cs = true -> is_call cs x serial sc fn fver v ->
  svc_by_cookie s sc = None ->
  step s (Message c x) f b = Done (s, [(c, CallFunctionReply serial CRInvalidService, None)]).
Proof. exact invalid_service. Qed.
Print Assumptions C02_invalid_service.

(* (b) a call to a live service is stored and forwarded once, in the callee's protocol form
   (CallFunction2 iff the callee's version is >= 19), function and payload unchanged *)
Theorem C02_call_forwarded : forall s c cs x serial sc fn fver v f bs k sv callee ccs b nxt,
  conns s !! c = Some cs -> is_call cs x serial sc fn fver v ->
  svc_by_cookie s sc = Some (k, sv) -> owner_of_svc s k = Some callee ->
  conns s !! callee = Some ccs -> cs_alive ccs = true ->
  pick_serial s bs = Some (b, nxt) -> cs_calls cs !! serial = None ->
  step s (Message c x) f bs =
    Done (call_state s c cs serial k sv b nxt callee,
          [(callee, if 19 <=? cs_ver ccs then CallFunction2 b sc fn fver v else CallFunction b sc fn v,
            Some (cs_ver cs))]).
Proof. exact call_forwarded. Qed.
Print Assumptions C02_call_forwarded.

Theorem C02_call_stored : forall s c cs serial k sv b nxt callee,
  let s' := call_state s c cs serial k sv b nxt callee in
  calls s' !! b = Some {| c_caller := c; c_serial := serial; c_svc := k; c_aborted := false |} /\
  (exists cs', conns s' !! c = Some cs' /\ cs_calls cs' !! serial = Some (b, callee) /\
               cs_ver cs' = cs_ver cs /\ cs_alive cs' = cs_alive cs) /\
  (exists sv', svcs s' !! k = Some sv' /\ b ∈ s_calls sv').
Proof. exact call_forwarded_stored. Qed.
Print Assumptions C02_call_stored.

(* a caller serial that is still pending: the caller is removed *)
Theorem C02_duplicate_serial : forall s c cs x serial sc fn fver v f bs k sv callee b nxt p s' o,
  conns s !! c = Some cs -> is_call cs x serial sc fn fver v ->
  svc_by_cookie s sc = Some (k, sv) -> owner_of_svc s k = Some callee ->
  pick_serial s bs = Some (b, nxt) -> cs_calls cs !! serial = Some p ->
  step s (Message c x) f bs = Done (s', o) -> conns s' !! c = None.
Proof. exact call_duplicate_serial_removed. Qed.
Print Assumptions C02_duplicate_serial.

(* (c) the owner's reply: exactly one output, to the caller, with the caller's serial, result and
   payload unchanged, tagged with the owner's version; the call is forgotten everywhere *)
Theorem C02_reply_routed : forall s o ocs b r cl sv ccs p f bs,
  conns s !! o = Some ocs -> calls s !! b = Some cl ->
  owner_of_svc s (c_svc cl) = Some o -> svcs s !! c_svc cl = Some sv -> b ∈ s_calls sv ->
  c_aborted cl = false ->
  conns s !! c_caller cl = Some ccs -> cs_alive ccs = true -> cs_calls ccs !! c_serial cl = Some p ->
  step s (Message o (CallFunctionReply b r)) f bs =
    Done (reply_state s b cl sv ccs, [(c_caller cl, CallFunctionReply (c_serial cl) r, Some (cs_ver ocs))]).
Proof. exact reply_routed. Qed.
Print Assumptions C02_reply_routed.

Theorem C02_reply_forgets : forall s b cl sv ccs,
  calls (reply_state s b cl sv ccs) !! b = None /\
  exists ccs', conns (reply_state s b cl sv ccs) !! c_caller cl = Some ccs' /\
               cs_calls ccs' !! c_serial cl = None /\ cs_ver ccs' = cs_ver ccs /\ cs_alive ccs' = cs_alive ccs.
Proof. exact reply_routed_forgets. Qed.
Print Assumptions C02_reply_forgets.

(* replies for an unknown broker serial or from a connection that does not own the service are
   dropped: no output, no state change *)
Theorem C02_reply_dropped : forall s o ocs b r f bs,
  conns s !! o = Some ocs ->
  (calls s !! b = None \/
   exists cl owner sv, calls s !! b = Some cl /\ owner_of_svc s (c_svc cl) = Some owner /\
                       svcs s !! c_svc cl = Some sv /\ owner <> o) ->
  step s (Message o (CallFunctionReply b r)) f bs = Done (s, []).
Proof. exact reply_dropped. Qed.
Print Assumptions C02_reply_dropped.

(* hence a duplicate reply is dropped *)
Theorem C02_no_duplicate : forall s o ocs b r cl sv ccs p f bs r' f' bs' ocs',
  conns s !! o = Some ocs -> calls s !! b = Some cl ->
  owner_of_svc s (c_svc cl) = Some o -> svcs s !! c_svc cl = Some sv -> b ∈ s_calls sv ->
  c_aborted cl = false ->
  conns s !! c_caller cl = Some ccs -> cs_alive ccs = true -> cs_calls ccs !! c_serial cl = Some p ->
  exists s1 o1, step s (Message o (CallFunctionReply b r)) f bs = Done (s1, o1) /\
    (conns s1 !! o = Some ocs' -> step s1 (Message o (CallFunctionReply b r')) f' bs' = Done (s1, [])).
Proof. exact no_duplicate. Qed.
Print Assumptions C02_no_duplicate.

(* (d) abort by the caller (protocol version >= 16): one reply Aborted to the caller; the callee
   is told iff it is connected with version >= 16; the call stays stored, marked aborted *)
Theorem C02_abort : forall s c cs serial b callee cl f bs,
  conns s !! c = Some cs -> cs_alive cs = true -> 16 <= cs_ver cs ->
  cs_calls cs !! serial = Some (b, callee) ->
  calls s !! b = Some cl -> c_caller cl = c -> c_serial cl = serial -> c_aborted cl = false ->
  (forall ccs, conns s !! callee = Some ccs -> 16 <= cs_ver ccs -> cs_alive ccs = true) ->
  step s (Message c (AbortFunctionCall serial)) f bs =
    Done (s <| calls ::= <[b := cl <| c_aborted := true |>]> |>
            <| conns ::= <[c := cs <| cs_calls ::= delete serial |>]> |>,
          (match conns s !! callee with
           | Some ccs => if 16 <=? cs_ver ccs then [(callee, AbortFunctionCall b, None)] else []
           | None => []
           end) ++ [(c, CallFunctionReply serial CRAborted, None)]).
Proof. exact abort_step. Qed.
Print Assumptions C02_abort.

(* the owner's reply after the abort is not delivered *)
Theorem C02_reply_after_abort : forall s o ocs b r cl sv f bs,
  conns s !! o = Some ocs -> calls s !! b = Some cl ->
  owner_of_svc s (c_svc cl) = Some o -> svcs s !! c_svc cl = Some sv -> b ∈ s_calls sv ->
  c_aborted cl = true ->
  step s (Message o (CallFunctionReply b r)) f bs =
    Done (s <| calls ::= delete b |> <| svcs ::= <[c_svc cl := sv <| s_calls ::= fun x => x ∖ {[b]} |>]> |>, []).
Proof. exact reply_after_abort. Qed.
Print Assumptions C02_reply_after_abort.

(* (e) destruction of the service: exactly the non-aborted calls of the service get an
   InvalidService reply queued, all its calls are deleted *)
Theorem C02_destroyed : forall m cookie k sv m',
  svc_by_cookie (ms m) cookie = Some (k, sv) -> remove_service m cookie = Done m' ->
  (forall b, b ∈ s_calls sv -> calls (ms m') !! b = None) /\
  (forall b, b ∉ s_calls sv -> calls (ms m') !! b = calls (ms m) !! b) /\
  (exists new, w_rm_call (mw m') = new ++ w_rm_call (mw m) /\
     length new = length (List.filter (fun b => match calls (ms m) !! b with Some cl => negb (c_aborted cl) | None => false end)
                                      (elements (s_calls sv))) /\
     forall serial c r, (serial, c, r) ∈ new <->
       r = CRInvalidService /\
       exists b cl, b ∈ s_calls sv /\ calls (ms m) !! b = Some cl /\ c_aborted cl = false /\
                    c_serial cl = serial /\ c_caller cl = c) /\
  conns (ms m') = conns (ms m) /\ mo m' = mo m.
Proof. exact destroyed_calls. Qed.
Print Assumptions C02_destroyed.

(* ... and the work loop turns each queued entry into one reply and forgets the caller's serial *)
Theorem C02_destroyed_reply : forall m serial c r rest cs p,
  w_remove_conns (mw m) = [] -> w_unsub_ev (mw m) = [] -> w_unsub_all (mw m) = [] ->
  w_svc_destroyed (mw m) = [] -> w_rm_call (mw m) = (serial, c, r) :: rest ->
  conns (ms m) !! c = Some cs -> cs_alive cs = true -> cs_calls cs !! serial = Some p ->
  settle_one m =
    Some (Done (m <| mw; w_rm_call := rest |>
                  <| ms; conns ::= <[c := cs <| cs_calls ::= delete serial |>]> |>
                  <| mo := mo m ++ [(c, CallFunctionReply serial r, None)] |>)).
Proof. exact settle_one_rm_call_alive. Qed.
Print Assumptions C02_destroyed_reply.

(* (f) counting, over a whole step and for EVERY event: at most one reply per serial *)
Theorem C02_at_most_once : forall s e f bs s' o c serial,
  step s e f bs = Done (s', o) -> (length (List.filter (is_reply_to serial) (outs_to c o)) <= 1)%nat.
Proof. exact at_most_once_outs_to. Qed.
Print Assumptions C02_at_most_once.

(* except in the step handling c's own call with that serial, a reply is only output for a
   pending serial, and the serial is not pending afterwards *)
Theorem C02_reply_accounting : forall s e f bs s' o c serial,
  step s e f bs = Done (s', o) -> ~ is_own_call e c serial ->
  (nrep c serial o + pend c serial s' <= pend c serial s)%nat.
Proof. exact reply_accounting. Qed.
Print Assumptions C02_reply_accounting.

(* exactly once: if c is connected with a working receiver after the step, the accounting is exact:
   a serial that was pending and is no longer pending was answered exactly once in this step —
   whatever resolved it (owner's reply, abort, destruction of service or object, owner's removal) *)
Theorem C02_exactly_once : forall s e f bs s' o c serial,
  step s e f bs = Done (s', o) -> ~ is_own_call e c serial -> alive s' c = true ->
  (nrep c serial o + pend c serial s')%nat = pend c serial s.
Proof. exact reply_conservation. Qed.
Print Assumptions C02_exactly_once.

(* over whole histories between two uses of a caller serial *)
Theorem C02_history_at_most_once : forall h s s' os c serial,
  run s h = Done (s', os) -> Forall (fun i => ~ is_own_call (i_ev i) c serial) h ->
  (nrep c serial (concat os) + pend c serial s' <= pend c serial s)%nat.
Proof. exact history_accounting. Qed.
Print Assumptions C02_history_at_most_once.

Theorem C02_history_exactly_once : forall h s s' os c serial,
  run s h = Done (s', os) -> Forall (fun i => ~ is_own_call (i_ev i) c serial) h -> alive_along c s h ->
  (nrep c serial (concat os) + pend c serial s')%nat = pend c serial s.
Proof. exact history_conservation. Qed.
Print Assumptions C02_history_exactly_once.

(* the same with the invariant facts packaged as the two predicates [calls_consistent] and
   [calls_backlinked] (both hold in [init]; preserved by every step according to Broker/Inv.v) *)
Theorem C02_abort_consistent : forall s c cs serial b callee f bs,
  calls_consistent s ->
  conns s !! c = Some cs -> cs_alive cs = true -> 16 <= cs_ver cs ->
  cs_calls cs !! serial = Some (b, callee) ->
  (forall ccs, conns s !! callee = Some ccs -> 16 <= cs_ver ccs -> cs_alive ccs = true) ->
  exists cl, calls s !! b = Some cl /\
    step s (Message c (AbortFunctionCall serial)) f bs =
      Done (s <| calls ::= <[b := cl <| c_aborted := true |>]> |>
              <| conns ::= <[c := cs <| cs_calls ::= delete serial |>]> |>,
            abort_notice s callee b ++ [(c, CallFunctionReply serial CRAborted, None)]).
Proof. exact abort_step_consistent. Qed.
Print Assumptions C02_abort_consistent.

Theorem C02_reply_routed_backlinked : forall s o ocs b r cl ccs f bs,
  calls_backlinked s ->
  conns s !! o = Some ocs -> calls s !! b = Some cl -> owner_of_svc s (c_svc cl) = Some o ->
  c_aborted cl = false -> conns s !! c_caller cl = Some ccs -> cs_alive ccs = true ->
  exists sv, step s (Message o (CallFunctionReply b r)) f bs =
    Done (reply_state s b cl sv ccs, [(c_caller cl, CallFunctionReply (c_serial cl) r, Some (cs_ver ocs))]).
Proof. exact reply_routed_backlinked. Qed.
Print Assumptions C02_reply_routed_backlinked.

Theorem C02_invariant_facts_init : calls_consistent init /\ calls_backlinked init.
Proof. exact invariant_facts_init. Qed.
Print Assumptions C02_invariant_facts_init.

(* which result a reply carries: in a step that does not handle a CallFunctionReply message every
   reply output is broker-made with result InvalidService or Aborted (the owner's result is
   forwarded only by C02_reply_routed, unchanged) *)
Theorem C02_synthesized_results : forall s e f bs s' o c serial r from,
  step s e f bs = Done (s', o) ->
  (match e with Message _ (CallFunctionReply _ _) => False | _ => True end) ->
  (c, CallFunctionReply serial r, from) ∈ o ->
  (r = CRInvalidService \/ r = CRAborted) /\ from = None.
Proof. exact synthesized_results. Qed.
Print Assumptions C02_synthesized_results.

(* ---- reachable states (the invariant of Broker/Inv.v discharged): no invariant hypotheses *)
(* the called service — hence also: its object, or its owner's connection — is gone after the
   step: the caller, if still connected with a working receiver, got exactly one reply *)
Theorem C02_destroyed_exactly_once : forall s i s' o c serial cs b callee cl,
  reachable s -> legal s i -> step s (i_ev i) (i_fresh i) (i_bserial i) = Done (s', o) ->
  ~ is_own_call (i_ev i) c serial ->
  conns s !! c = Some cs -> cs_calls cs !! serial = Some (b, callee) -> calls s !! b = Some cl ->
  alive s' c = true -> svcs s' !! c_svc cl = None ->
  nrep c serial o = 1%nat.
Proof. exact destroyed_exactly_once_reach. Qed.
Print Assumptions C02_destroyed_exactly_once.

(* more generally: the broker has dropped the call's record in this step *)
Theorem C02_forgotten_exactly_once : forall s i s' o c serial cs b callee,
  reachable s -> legal s i -> step s (i_ev i) (i_fresh i) (i_bserial i) = Done (s', o) ->
  ~ is_own_call (i_ev i) c serial ->
  conns s !! c = Some cs -> cs_calls cs !! serial = Some (b, callee) ->
  alive s' c = true -> calls s' !! b = None ->
  nrep c serial o = 1%nat.
Proof. exact forgotten_exactly_once_reach. Qed.
Print Assumptions C02_forgotten_exactly_once.

Theorem C02_pending_has_record : forall s c cs serial b callee,
  reachable s -> conns s !! c = Some cs -> cs_calls cs !! serial = Some (b, callee) ->
  exists cl, calls s !! b = Some cl /\ c_caller cl = c /\ c_serial cl = serial /\ c_aborted cl = false.
Proof. exact pending_has_record. Qed.
Print Assumptions C02_pending_has_record.

Theorem C02_reply_routed_reach : forall s o ocs b r cl ccs f bs,
  reachable s ->
  conns s !! o = Some ocs -> calls s !! b = Some cl -> owner_of_svc s (c_svc cl) = Some o ->
  c_aborted cl = false -> conns s !! c_caller cl = Some ccs -> cs_alive ccs = true ->
  exists sv, step s (Message o (CallFunctionReply b r)) f bs =
    Done (reply_state s b cl sv ccs, [(c_caller cl, CallFunctionReply (c_serial cl) r, Some (cs_ver ocs))]).
Proof. exact reply_routed_reach. Qed.
Print Assumptions C02_reply_routed_reach.

Theorem C02_abort_reach : forall s c cs serial b callee f bs,
  reachable s ->
  conns s !! c = Some cs -> cs_alive cs = true -> 16 <= cs_ver cs ->
  cs_calls cs !! serial = Some (b, callee) ->
  (forall ccs, conns s !! callee = Some ccs -> 16 <= cs_ver ccs -> cs_alive ccs = true) ->
  exists cl, calls s !! b = Some cl /\
    step s (Message c (AbortFunctionCall serial)) f bs =
      Done (s <| calls ::= <[b := cl <| c_aborted := true |>]> |>
              <| conns ::= <[c := cs <| cs_calls ::= delete serial |>]> |>,
            abort_notice s callee b ++ [(c, CallFunctionReply serial CRAborted, None)]).
Proof. exact abort_reach. Qed.
Print Assumptions C02_abort_reach.

(* the hypotheses are satisfiable, and the resolving events not covered by an exact equation
   above (destruction, owner's removal) on a concrete history *)
Example C02_invalid_service_sat :
  let s := state_after h_base in
  conns s !! 2 = Some (get_conn s 2) /\ cs_alive (get_conn s 2) = true /\
  is_call (get_conn s 2) (CallFunction 9 5555 3 77) 9 5555 3 None 77 /\ svc_by_cookie s 5555 = None.
Proof. exact invalid_service_sat. Qed.

Example C02_call_forwarded_sat :
  let s := state_after h_base in
  conns s !! 2 = Some (get_conn s 2) /\ is_call (get_conn s 2) (CallFunction 9 1001 3 77) 9 1001 3 None 77 /\
  svc_by_cookie s 1001 = Some ((100, 200), get_svc s (100, 200)) /\ owner_of_svc s (100, 200) = Some 1 /\
  conns s !! 1 = Some (get_conn s 1) /\ cs_alive (get_conn s 1) = true /\
  pick_serial s (Some 0) = Some (0, 1) /\ cs_calls (get_conn s 2) !! 9 = None.
Proof. exact call_forwarded_sat. Qed.

Example C02_reply_routed_sat :
  let s := state_after h_called in
  let cl := get_call s 0 in
  conns s !! 1 = Some (get_conn s 1) /\ calls s !! 0 = Some cl /\
  owner_of_svc s (c_svc cl) = Some 1 /\ svcs s !! c_svc cl = Some (get_svc s (c_svc cl)) /\
  0 ∈ s_calls (get_svc s (c_svc cl)) /\ c_aborted cl = false /\
  conns s !! c_caller cl = Some (get_conn s 2) /\ cs_alive (get_conn s 2) = true /\
  cs_calls (get_conn s 2) !! c_serial cl = Some (0, 1).
Proof. exact reply_routed_sat. Qed.

Example C02_abort_sat :
  let s := state_after h_called in
  let cl := get_call s 0 in
  conns s !! 2 = Some (get_conn s 2) /\ cs_alive (get_conn s 2) = true /\ 16 <= cs_ver (get_conn s 2) /\
  cs_calls (get_conn s 2) !! 9 = Some (0, 1) /\ calls s !! 0 = Some cl /\ c_caller cl = 2 /\ c_serial cl = 9 /\
  c_aborted cl = false /\
  (forall ccs, conns s !! 1 = Some ccs -> 16 <= cs_ver ccs -> cs_alive ccs = true).
Proof. exact abort_sat. Qed.

Example C02_destroyed_run :
  outs_after (h_called2 ++ [inp (Message 1 (DestroyService 5 1001)) 0 None]) !! 7%nat =
  Some [(1, DestroyServiceReply 5 R3Ok, None);
        (3, CallFunctionReply 9 CRInvalidService, None); (2, CallFunctionReply 9 CRInvalidService, None)].
Proof. exact destroyed_run. Qed.

Example C02_owner_disconnect_run :
  outs_after (h_called2 ++ [inp (ConnectionShutdown 1) 0 None]) !! 7%nat =
  Some [(3, CallFunctionReply 9 CRInvalidService, None); (2, CallFunctionReply 9 CRInvalidService, None)].
Proof. exact owner_disconnect_run. Qed.

(* ================================================================ additions: what DESIGN.md listed as
   "not proved" for C02 (Broker/CallMoreProofs.v).
   [is_rep c serial o]: the output o is a CallFunctionReply with that serial to connection c. *)

(* ---- (5) the callee's receiver is gone ([cs_alive ccs = false]: the connection task was dropped and
   the broker has not noticed yet).  A call request is stored exactly as for a forwarded call, the
   send fails, the callee is queued for removal and the handler returns Ok (broker.rs,
   call_function_impl: `if res.is_err() { state.push_remove_conn(callee_id, false) }`): the step is
   the callee's disconnect, run from the state in which the call is stored *)
Theorem C02_call_dead_callee : forall s c cs x serial sc fn fver v f bs k sv callee ccs b nxt f' bs',
  conns s !! c = Some cs -> is_call cs x serial sc fn fver v ->
  svc_by_cookie s sc = Some (k, sv) -> owner_of_svc s k = Some callee ->
  conns s !! callee = Some ccs -> cs_alive ccs = false ->
  pick_serial s bs = Some (b, nxt) -> cs_calls cs !! serial = None ->
  step s (Message c x) f bs =
  step (call_state s c cs serial k sv b nxt callee) (ConnectionShutdown callee) f' bs'.
Proof. exact call_dead_callee. Qed.
Print Assumptions C02_call_dead_callee.

(* ... so, in a reachable state: the callee is removed, the called service is gone, and the caller,
   if it still has its receiver, is answered in this very step, exactly once, InvalidService,
   broker-made; its serial is free again *)
Theorem C02_call_dead_callee_answered : forall s i c cs x serial sc fn fver v k sv callee ccs s' o,
  reachable s -> legal s i -> i_ev i = Message c x ->
  conns s !! c = Some cs -> is_call cs x serial sc fn fver v ->
  svc_by_cookie s sc = Some (k, sv) -> owner_of_svc s k = Some callee ->
  conns s !! callee = Some ccs -> cs_alive ccs = false -> cs_calls cs !! serial = None ->
  step s (Message c x) (i_fresh i) (i_bserial i) = Done (s', o) ->
  conns s' !! callee = None /\ svcs s' !! k = None /\
  (alive s' c = true ->
     List.filter (is_rep c serial) o = [(c, CallFunctionReply serial CRInvalidService, None)] /\
     pend c serial s' = 0%nat).
Proof. exact call_dead_callee_answered. Qed.
Print Assumptions C02_call_dead_callee_answered.

(* an abort whose callee (version >= 16, so C02_abort would tell it) has lost its receiver: the
   caller is answered Aborted — first output of the step, the only reply with that serial —, its
   serial is free again, and the callee is removed in the same step *)
Theorem C02_abort_dead_callee : forall s c cs serial b callee cl ccs f bs s' o,
  conns s !! c = Some cs -> cs_alive cs = true -> 16 <= cs_ver cs ->
  cs_calls cs !! serial = Some (b, callee) ->
  calls s !! b = Some cl -> c_caller cl = c -> c_serial cl = serial -> c_aborted cl = false ->
  conns s !! callee = Some ccs -> 16 <= cs_ver ccs -> cs_alive ccs = false ->
  step s (Message c (AbortFunctionCall serial)) f bs = Done (s', o) ->
  head o = Some (c, CallFunctionReply serial CRAborted, None) /\
  nrep c serial o = 1%nat /\ pend c serial s' = 0%nat /\ conns s' !! callee = None.
Proof. exact abort_dead_callee. Qed.
Print Assumptions C02_abort_dead_callee.

(* ---- (6) InvalidService or Aborted?  Aborted is output to (c, serial) only in the step that
   handles c's own AbortFunctionCall serial (steps handling a CallFunctionReply message forward the
   owner's result, which may be anything, and are described by C02_reply_routed) *)
Theorem C02_aborted_only_by_own_abort : forall s i s' o c serial from,
  reachable s -> legal s i -> step s (i_ev i) (i_fresh i) (i_bserial i) = Done (s', o) ->
  (match i_ev i with Message _ (CallFunctionReply _ _) => False | _ => True end) ->
  (c, CallFunctionReply serial CRAborted, from) ∈ o ->
  i_ev i = Message c (AbortFunctionCall serial).
Proof. exact aborted_only_by_own_abort. Qed.
Print Assumptions C02_aborted_only_by_own_abort.

(* hence the reply of C02_destroyed_exactly_once (service, its object or its owner gone) is
   InvalidService, broker-made, in every step other than the caller's own abort *)
Theorem C02_destroyed_invalid_service : forall s i s' o c serial cs b callee cl,
  reachable s -> legal s i -> step s (i_ev i) (i_fresh i) (i_bserial i) = Done (s', o) ->
  ~ is_own_call (i_ev i) c serial ->
  (match i_ev i with Message _ (CallFunctionReply _ _) => False | _ => True end) ->
  i_ev i <> Message c (AbortFunctionCall serial) ->
  conns s !! c = Some cs -> cs_calls cs !! serial = Some (b, callee) -> calls s !! b = Some cl ->
  alive s' c = true -> svcs s' !! c_svc cl = None ->
  List.filter (is_rep c serial) o = [(c, CallFunctionReply serial CRInvalidService, None)].
Proof. exact destroyed_invalid_service. Qed.
Print Assumptions C02_destroyed_invalid_service.

(* concrete runs (connection 1 owns the service, 2 and 3 are callers; DropTask 1 = the owner's
   receiver is dropped) *)
Example C02_call_dead_callee_sat :
  let s := state_after (h_base ++ [inp (DropTask 1) 0 None]) in
  conns s !! 2 = Some (get_conn s 2) /\ is_call (get_conn s 2) (CallFunction 9 1001 3 77) 9 1001 3 None 77 /\
  svc_by_cookie s 1001 = Some ((100, 200), get_svc s (100, 200)) /\ owner_of_svc s (100, 200) = Some 1 /\
  conns s !! 1 = Some (get_conn s 1) /\ cs_alive (get_conn s 1) = false /\
  pick_serial s (Some 0) = Some (0, 1) /\ cs_calls (get_conn s 2) !! 9 = None.
Proof. exact call_dead_callee_sat. Qed.

Example C02_dead_callee_call_run :
  let h := h_base ++ [inp (DropTask 1) 0 None; inp (Message 2 (CallFunction 9 1001 3 77)) 0 (Some 0)] in
  drop 6 (outs_after h) = [[(2, CallFunctionReply 9 CRInvalidService, None)]] /\
  conns (state_after h) !! 1 = None /\ svcs (state_after h) !! (100, 200) = None /\ calls (state_after h) !! 0 = None.
Proof. exact dead_callee_call_run. Qed.

(* the service is destroyed (its owner removed) in the step that processes the queued abort: the
   abort comes first, the caller gets Aborted and nothing else *)
Example C02_dead_callee_abort_run :
  let h := h_called ++ [inp (DropTask 1) 0 None; inp (Message 2 (AbortFunctionCall 9)) 0 None] in
  drop 7 (outs_after h) = [[(2, CallFunctionReply 9 CRAborted, None)]] /\
  conns (state_after h) !! 1 = None /\ svcs (state_after h) !! (100, 200) = None /\ calls (state_after h) !! 0 = None.
Proof. exact dead_callee_abort_run. Qed.

Example C02_abort_then_destroy_run :
  drop 7 (outs_after (h_called2 ++ [inp (Message 2 (AbortFunctionCall 9)) 0 None;
                                    inp (Message 1 (DestroyService 5 1001)) 0 None])) =
  [ [(1, AbortFunctionCall 0, None); (2, CallFunctionReply 9 CRAborted, None)];
    [(1, DestroyServiceReply 5 R3Ok, None); (3, CallFunctionReply 9 CRInvalidService, None)] ].
Proof. exact abort_then_destroy_run. Qed.

Example C02_caller_gone_then_destroy_run :
  drop 7 (outs_after (h_called2 ++ [inp (ConnectionShutdown 2) 0 None;
                                    inp (Message 1 (DestroyService 5 1001)) 0 None])) =
  [ [(1, AbortFunctionCall 0, None)];
    [(1, DestroyServiceReply 5 R3Ok, None); (3, CallFunctionReply 9 CRInvalidService, None)] ].
Proof. exact caller_gone_then_destroy_run. Qed.

(* ================================================================ broker-side serials are fresh
   (Broker/SerialAlloc.v, Broker/SerialProofs.v).  The owner's reply is routed by the broker-side
   serial alone, so "duplicate replies are never delivered" needs the allocator SerialMap::insert
   (broker/src/serial_map.rs; text pinned by tools/rs2v_broker.py, modelled by [sm_probe] /
   [sm_choice] in Broker/Model.v: probe next, next+1, ... mod 2^32 until a vacant serial is found,
   next := serial + 1 mod 2^32) not to give the serial of a completed call to a later call.
   [allocates s e]: the event e is a CallFunction / CallFunction2 (version >= 19) request that
   reaches function_calls.insert in state s (caller connected, service cookie known);
   [allocs s h]: the allocations along the history h from s, in order, as (serial, number of loop
   iterations = number of times next was advanced); [serials s h]: their serials;
   [advanced s h]: the sum of their iteration counts; [legal_run s h] (Props/C11_lemmas.v): every
   input is legal in the state it is applied to — for a call request: fewer than 2^32 calls are
   pending and the serial observed on the implementation's trace, if any, is the model's. *)

(* (s1) the allocator succeeds whenever fewer than 2^32 calls are pending; the chosen serial is
   not the serial of a live call, is a u32, and is the first vacant one at or after [next] *)
Theorem C02_serial_vacant : forall s,
  reachable s -> N.of_nat (size (calls s)) < 4294967296 ->
  exists b nxt, sm_choice s = Some (b, nxt) /\ calls s !! b = None /\ b < 4294967296 /\
    nxt = (b + 1) mod 4294967296 /\
    (exists k : nat, b = (next s + N.of_nat k) mod 4294967296 /\
       forall i, (i < k)%nat -> is_Some (calls s !! ((next s + N.of_nat i) mod 4294967296))) /\
    forall bs, bs = None \/ bs = Some b -> pick_serial s bs = Some (b, nxt).
Proof. exact serial_vacant. Qed.
Print Assumptions C02_serial_vacant.

(* (s2) [next] and the set of live broker serials change only by an allocation: any step (no
   invariant, no legality) that allocates takes [pick_serial]'s serial b, sets next to the
   allocator's value, and b is the only possible new key of [calls]; any other step leaves [next]
   alone and adds no key *)
Theorem C02_serial_only_by_allocation : forall s e f bs s' o,
  step s e f bs = Done (s', o) ->
  if allocates s e
  then exists b nxt, pick_serial s bs = Some (b, nxt) /\ next s' = nxt /\
         forall x, is_Some (calls s' !! x) -> is_Some (calls s !! x) \/ x = b
  else next s' = next s /\ forall x, is_Some (calls s' !! x) -> is_Some (calls s !! x).
Proof. exact step_alloc. Qed.
Print Assumptions C02_serial_only_by_allocation.

(* (s3) freshness over time: along a legal history from [init] in which [next] has been advanced
   at most 2^32 times in total, the broker serials handed out are pairwise distinct — including
   those of calls whose request never reached the callee *)
Theorem C02_serial_fresh : forall h s' os,
  legal_run init h -> run init h = Done (s', os) -> advanced init h <= 4294967296 ->
  NoDup (serials init h).
Proof. exact serial_fresh. Qed.
Print Assumptions C02_serial_fresh.

(* the same, split at any point of the history *)
Theorem C02_serial_not_reused : forall h1 h2 s1 os1 s2 os2 b,
  legal_run init (h1 ++ h2) -> run init h1 = Done (s1, os1) -> run s1 h2 = Done (s2, os2) ->
  advanced init (h1 ++ h2) <= 4294967296 -> b ∈ serials init h1 -> b ∉ serials s1 h2.
Proof. exact serial_not_reused. Qed.
Print Assumptions C02_serial_not_reused.

(* (s4) duplicates and late replies over a history: once the call that got broker serial b has
   been answered or otherwise forgotten (its record is gone in s1), a CallFunctionReply b from
   anyone at any later point of such a history produces no output and changes nothing *)
Theorem C02_duplicate_never_delivered_run : forall h1 h2 s1 os1 s2 os2 b c r f bs,
  legal_run init (h1 ++ h2) -> run init h1 = Done (s1, os1) -> run s1 h2 = Done (s2, os2) ->
  advanced init (h1 ++ h2) <= 4294967296 ->
  b ∈ serials init h1 -> calls s1 !! b = None ->
  step s2 (Message c (CallFunctionReply b r)) f bs = Done (s2, []).
Proof. exact duplicate_never_delivered_run. Qed.
Print Assumptions C02_duplicate_never_delivered_run.

(* the hypotheses are satisfiable: call (serial 0), answer, next call (serial 1, not 0 again) *)
Example C02_serial_fresh_sat :
  legal_run init (h_answered ++ h_next_call) /\
  (exists s' os, run init (h_answered ++ h_next_call) = Done (s', os)) /\
  advanced init (h_answered ++ h_next_call) = 2 /\ serials init (h_answered ++ h_next_call) = [0; 1].
Proof. exact serial_fresh_sat. Qed.

Example C02_duplicate_never_delivered_sat :
  legal_run init (h_answered ++ h_next_call) /\
  run init h_answered = Done (state_after h_answered, outs_after h_answered) /\
  run (state_after h_answered) h_next_call =
    Done (state_after (h_answered ++ h_next_call), drop 7 (outs_after (h_answered ++ h_next_call))) /\
  advanced init (h_answered ++ h_next_call) <= 4294967296 /\
  0 ∈ serials init h_answered /\ calls (state_after h_answered) !! 0 = None /\
  calls (state_after (h_answered ++ h_next_call)) !! 1 = Some (get_call (state_after (h_answered ++ h_next_call)) 1).
Proof. exact duplicate_never_delivered_sat. Qed.

(* the owner's repeated answer to the first call, sent while the second call is pending, is dropped *)
Example C02_duplicate_dropped_run :
  drop 5 (outs_after h_reuse) =
  [ [(1, CallFunction2 0 1001 3 None 77, Some 20)];
    [(2, CallFunctionReply 9 (CROk 5), Some 20)];
    [(1, CallFunction2 1 1001 3 None 78, Some 14)];
    [] ].
Proof. exact duplicate_dropped_run. Qed.

(* (s5) what (s3)/(s4) exclude — seeded defect C02-b: with an allocator that restarts from 0
   whenever no call is pending ([sm_choice_resetting], [run_resetting] in Props/C02_lemmas.v: per
   step the allocation (serial, next) if any, and the outputs), two successive calls get broker
   serial 0 and the owner's repeated answer to the first is delivered to the second caller *)
Example C02_resetting_allocator_reuses :
  drop 5 (run_resetting init h_reuse_unobserved) =
  [ (Some (0, 1), [(1, CallFunction2 0 1001 3 None 77, Some 20)]);
    (None,        [(2, CallFunctionReply 9 (CROk 5), Some 20)]);
    (Some (0, 1), [(1, CallFunction2 0 1001 3 None 78, Some 14)]);
    (None,        [(3, CallFunctionReply 9 (CROk 5), Some 20)]) ].
Proof. exact resetting_allocator_reuses. Qed.
