(* Props/C16_lemmas.v — top-level corollaries for C16 (statements in Props/C16.v). *)
From Aldrin Require Import Codec.Base Codec.BaseProofs Codec.Value Codec.Ser Codec.De Codec.Skip
  Codec.RoundTrip gen.Consts.
From Aldrin Require Import Codec.DeProofs.
From Aldrin Require Import Derive.Ty Derive.TDe Derive.TSer Derive.Conforms Derive.TDeProofs
  Derive.ConformsProofs Derive.TSerProofs Derive.TDeTotal Derive.DocAttr Derive.DocAttrProofs Derive.DeriveTie
  Derive.Evolve Derive.EvolveRel Derive.EvolveProofs.
From Coq Require Import ZifyBool ZifyNat ZifyN.
Open Scope N_scope.
Arguments N.eqb : simpl never.

(* the generated decoder on a whole serialized value: decided by [typed] *)
Lemma decides_top e t v bs : wf true v = true -> serialize e v = Ok bs ->
  match typed e t 0 v with
  | Some x => tde_top t bs = Ok x
  | None => exists err, tde_top t bs = Err err
  end.
Proof.
  unfold serialize, tde_top, tde_value. intros Hwf Hs.
  pose proof (tde_ser e v t 0%nat bs Hwf Hs (S (length bs)) [] (fuel2_len e v 0%nat bs Hwf Hs)) as H.
  rewrite app_nil_r in H. destruct (typed e t 0 v) as [x|]; cbn [dec_res] in H.
  - rewrite H. reflexivity.
  - destruct H as [err ->]. eexists; reflexivity.
Qed.

(* at any depth, in front of any rest, with any sufficient fuel *)
Lemma decides e t v d bs : wf true v = true -> ser e d v = Ok bs ->
  forall f r, (S (length bs) <= f)%nat ->
  match typed e t d v with
  | Some x => tde f t d (bs ++ r) = Ok (x, r)
  | None => exists err, tde f t d (bs ++ r) = Err err
  end.
Proof.
  intros Hwf Hs f r Hf. pose proof (fuel2_len e v d bs Hwf Hs) as L.
  exact (tde_ser e v t d bs Hwf Hs f r ltac:(lia)).
Qed.

Lemma accepts e t v bs : wf_ty t = true -> wf true v = true -> conforms t v = true -> serialize e v = Ok bs ->
  exists x, tde_top t bs = Ok x /\ typed e t 0 v = Some x.
Proof.
  intros Ht Hwf Hc Hs. pose proof (decides_top e t v bs Hwf Hs) as D.
  pose proof (typed_conforms e v t 0%nat bs Hwf Ht Hs) as T. rewrite Hc in T.
  destruct (typed e t 0 v) as [x|]; [|discriminate]. exists x. split; [exact D|reflexivity].
Qed.

Lemma rejects e t v bs : wf_ty t = true -> wf true v = true -> conforms t v = false -> serialize e v = Ok bs ->
  exists err, tde_top t bs = Err err.
Proof.
  intros Ht Hwf Hc Hs. pose proof (decides_top e t v bs Hwf Hs) as D.
  pose proof (typed_conforms e v t 0%nat bs Hwf Ht Hs) as T. rewrite Hc in T.
  destruct (typed e t 0 v) as [x|]; [discriminate|]. exact D.
Qed.

(* ---------- the three named ways of not conforming, and tolerated unknown ids ---------- *)
Lemma missing_required fs fb l id ft :
  In (id, (true, ft)) fs -> has_id id l = false -> conforms (TStruct fs fb) (VStruct l) = false.
Proof.
  intros Hin Hh. cbn [conforms]. apply andb_false_iff. right. apply not_true_is_false. intros F.
  rewrite forallb_forall in F. specialize (F _ Hin). cbn [fst snd negb orb] in F. congruence.
Qed.

Lemma wrong_required_field fs fb l id ft x :
  find_field fs id = Some (true, ft) -> In (id, x) l -> conforms ft x = false ->
  conforms (TStruct fs fb) (VStruct l) = false.
Proof.
  intros Hf Hin Hc. cbn [conforms]. apply andb_false_iff. left. apply not_true_is_false. intros F.
  rewrite forallb_forall in F. specialize (F _ Hin). cbn [fst snd] in F. rewrite Hf in F. congruence.
Qed.

Lemma wrong_optional_field fs fb l id ft x :
  find_field fs id = Some (false, ft) -> In (id, x) l ->
  match x with VNone => false | VSome y => negb (conforms ft y) | _ => true end = true ->
  conforms (TStruct fs fb) (VStruct l) = false.
Proof.
  intros Hf Hin Hc. cbn [conforms]. apply andb_false_iff. left. apply not_true_is_false. intros F.
  rewrite forallb_forall in F. specialize (F _ Hin). cbn [fst snd] in F. rewrite Hf in F.
  destruct x; try discriminate. rewrite F in Hc. discriminate.
Qed.

Lemma unknown_variant vs id x : find_variant vs id = None -> conforms (TEnum vs false) (VEnum id x) = false.
Proof. intros H. cbn [conforms]. rewrite H. reflexivity. Qed.

Lemma unit_variant_payload vs fb id x : find_variant vs id = Some None -> x <> VNone ->
  conforms (TEnum vs fb) (VEnum id x) = false.
Proof. intros H Hx. cbn [conforms]. rewrite H. destruct x; try reflexivity. congruence. Qed.

Lemma unknown_field_tolerated fs fb l id x :
  conforms (TStruct fs fb) (VStruct l) = true -> find_field fs id = None ->
  conforms (TStruct fs fb) (VStruct (l ++ [(id, x)])) = true.
Proof.
  cbn [conforms]. intros H Hf. apply andb_prop in H as [H1 H2]. apply andb_true_intro. split.
  - rewrite forallb_app, H1. cbn [forallb fst snd]. rewrite Hf. reflexivity.
  - rewrite forallb_forall in H2 |- *. intros f Hin. specialize (H2 _ Hin).
    destruct (fst (snd f)); cbn [negb orb] in *; [|reflexivity]. unfold has_id in *. rewrite existsb_app, H2. reflexivity.
Qed.

Lemma unknown_variant_with_fallback vs id x : find_variant vs id = None -> conforms (TEnum vs true) (VEnum id x) = true.
Proof. intros H. cbn [conforms]. rewrite H. reflexivity. Qed.

(* ---------- the decode/encode cycle at top level ---------- *)
Lemma cycle_top e t v bs : wf_ty t = true -> wf true v = true -> conforms t v = true -> serialize e v = Ok bs ->
  exists x bs', tde_top t bs = Ok x /\ typed e t 0 v = Some x /\ tser_top t x = Ok bs' /\
                de_as_value true bs' = Ok (norm t v) /\ tde_top t bs' = Ok x.
Proof.
  intros Ht Hwf Hc Hs. destruct (accepts e t v bs Ht Hwf Hc Hs) as (x & Hx & Ty).
  unfold serialize in Hs. destruct (typed_cycle e v t 0%nat bs x Hwf Ht Hs Ty) as (bs' & Hb & Hde & Htde).
  exists x, bs'. repeat split; auto.
  - unfold de_as_value. pose proof (Hde (fuel_of (norm t v)) [] (le_n _)) as D. rewrite app_nil_r in D.
    rewrite (de_value_stable true bs' _ _ D ltac:(discriminate)). reflexivity.
  - unfold tde_top. pose proof (Htde (fuel2 v) [] (le_n _)) as D. rewrite app_nil_r in D.
    rewrite (tde_value_stable t bs' _ _ D ltac:(discriminate)). reflexivity.
Qed.

Lemma accepts_full e t v bs : wf_ty t = true -> wf true v = true -> conforms t v = true -> serialize e v = Ok bs ->
  exists x bs', tde_top t bs = Ok x /\ tser_top t x = Ok bs' /\ de_as_value true bs' = Ok (norm t v).
Proof.
  intros Ht Hwf Hc Hs. destruct (cycle_top e t v bs Ht Hwf Hc Hs) as (x & bs' & A & _ & B & C & _). eauto.
Qed.

Lemma fallback_preserves e t v bs : wf_ty t = true -> wf true v = true -> conforms t v = true -> serialize e v = Ok bs ->
  exists x bs', tde_top t bs = Ok x /\ typed e t 0 v = Some x /\ tser_top t x = Ok bs' /\ tde_top t bs' = Ok x.
Proof.
  intros Ht Hwf Hc Hs. destruct (cycle_top e t v bs Ht Hwf Hc Hs) as (x & bs' & A & T & B & _ & D). eauto 6.
Qed.

(* ---------- old/new: a value of the newer type through code generated from the older type ---------- *)
Lemma old_new e t1 t2 v bs : wf_ty t1 = true -> wf_ty t2 = true -> evolves_keeping t1 t2 = true ->
  wf true v = true -> conforms t2 v = true -> serialize e v = Ok bs ->
  exists x1 bs' x2 bs'',
    tde_top t1 bs = Ok x1 /\ tser_top t1 x1 = Ok bs' /\
    tde_top t2 bs' = Ok x2 /\ tde_top t2 bs = Ok x2 /\
    tser_top t2 x2 = Ok bs'' /\ de_as_value true bs'' = Ok (norm t2 v).
Proof.
  intros W1 W2 Hev Hwf Hc2 Hs.
  pose proof (evolves_conforms v t1 t2 Hev Hc2) as Hc1.
  destruct (accepts e t1 v bs W1 Hwf Hc1 Hs) as (x1 & Hx1 & Ty1).
  destruct (cycle_top e t2 v bs W2 Hwf Hc2 Hs) as (x2 & bs'' & Hx2 & Ty2 & Hs2 & Hde2 & _).
  unfold serialize in Hs.
  destruct (typed_cycle2 e v t1 t2 0%nat bs x1 x2 Hwf W1 W2 Hev Hs Ty1 Ty2) as (bs' & Hb & Htde).
  exists x1, bs', x2, bs''.
  split; [exact Hx1|]. split; [exact Hb|]. split; [|split; [exact Hx2|split; [exact Hs2|exact Hde2]]].
  unfold tde_top. pose proof (Htde (fuel2 v) [] (le_n _)) as D. rewrite app_nil_r in D.
  rewrite (tde_value_stable t2 bs' _ _ D ltac:(discriminate)). reflexivity.
Qed.

(* under the condition the harness labels KEEPS with *)
Lemma old_new_all_fallback e t1 t2 v bs : wf_ty t1 = true -> wf_ty t2 = true ->
  evolves t1 t2 = true -> all_fallback t1 = true ->
  wf true v = true -> conforms t2 v = true -> serialize e v = Ok bs ->
  exists x1 bs' x2 bs'',
    tde_top t1 bs = Ok x1 /\ tser_top t1 x1 = Ok bs' /\
    tde_top t2 bs' = Ok x2 /\ tde_top t2 bs = Ok x2 /\
    tser_top t2 x2 = Ok bs'' /\ de_as_value true bs'' = Ok (norm t2 v).
Proof. intros W1 W2 He Hf. apply old_new; auto. apply evolves_all_fallback; assumption. Qed.

(* the negative side: an older enum without fallback rejects a variant it does not know *)
Lemma old_rejects_new_variant e vs1 id x bs : wf_ty (TEnum vs1 false) = true -> wf true (VEnum id x) = true ->
  find_variant vs1 id = None -> serialize e (VEnum id x) = Ok bs ->
  exists err, tde_top (TEnum vs1 false) bs = Err err.
Proof. intros W Hwf Hf Hs. eapply rejects; eauto. apply unknown_variant. exact Hf. Qed.

(* ... and an older struct without fallback drops every field it does not know *)
Lemma norm_nofallback_ids fs l id y :
  match norm (TStruct fs false) (VStruct l) with VStruct l' => In (id, y) l' | _ => False end -> known_field fs id = true.
Proof.
  cbn [norm app]. intros H. apply in_flat_map in H as (f & Hf & H). apply in_flat_map in H as (p & Hp & H).
  destruct (N.eqb_spec (fst p) (fst f)) as [E|E]; [|destruct H].
  assert (id = fst f) as ->.
  { destruct (fst (snd f)).
    - destruct H as [H|[]]. inversion H. congruence.
    - destruct (snd p); try solve [destruct H]. destruct H as [H|[]]. inversion H. congruence. }
  unfold known_field. pose proof (find_field_some_in fs f Hf). destruct (find_field fs (fst f)); [reflexivity|congruence].
Qed.

Lemma old_drops_without_fallback e fs1 l bs : wf_ty (TStruct fs1 false) = true -> wf true (VStruct l) = true ->
  conforms (TStruct fs1 false) (VStruct l) = true -> serialize e (VStruct l) = Ok bs ->
  exists x bs' l', tde_top (TStruct fs1 false) bs = Ok x /\ tser_top (TStruct fs1 false) x = Ok bs' /\
    de_as_value true bs' = Ok (VStruct l') /\ forall id y, In (id, y) l' -> known_field fs1 id = true.
Proof.
  intros W Hwf Hc Hs. destruct (accepts_full e _ _ bs W Hwf Hc Hs) as (x & bs' & A & B & C).
  exists x, bs'. cbn [norm app] in C. eexists. split; [exact A|]. split; [exact B|]. split; [exact C|].
  intros id y H. apply (norm_nofallback_ids fs1 l id y). cbn [norm app]. exact H.
Qed.

(* the emitter the code has NOW, selected by what the translator found at the emission sites *)
Definition emit_doc_attr_current (d : list N) : list N :=
  if (gen.DeriveConsts.DOC_ATTR_SITES_RAW =? 0)%N then emit_doc_attr_fixed d else emit_doc_attr d.
Lemma doc_attr_current : forall d, rust_string_literal (emit_doc_attr_current d) = Some d.
Proof.
  intro d. unfold emit_doc_attr_current.
  destruct doc_attr_tie as [Hraw _]. rewrite Hraw. change ((0 =? 0)%N) with true. cbv iota.
  apply doc_attr_fixed.
Qed.
