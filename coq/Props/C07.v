(* Props/C07.v — decoding untrusted bytes is total; skipping agrees with decoding.
   [de_value true] = Deserializer::new(buf,0)?.deserialize::<Value>() (validates UTF-8),
   [de_value false] = the same walk without UTF-8 validation, [skip_value] = Deserializer::skip,
   [split_off] = Deserializer::split_off_serialized_value, [peek_kind] = SerializedValueSlice::kind.
   [b] ranges over ALL byte strings. *)
From Aldrin Require Import Codec.Base Codec.Value Codec.De Codec.Skip Props.C07_lemmas
  Codec.SkipProofs Codec.Amplify.
Open Scope N_scope.

Theorem C07_skip_agrees : forall b v r, de_value true b = Ok (v, r) -> skip_value b = Ok r.
Proof. exact skip_agrees. Qed.
Print Assumptions C07_skip_agrees.

Theorem C07_skip_exact : forall b r, skip_value b = Ok r <-> (exists v, de_value false b = Ok (v, r)).
Proof. exact skip_exact. Qed.
Print Assumptions C07_skip_exact.

Theorem C07_validating_subset : forall b v r, de_value true b = Ok (v, r) -> de_value false b = Ok (v, r).
Proof. exact validating_subset. Qed.
Print Assumptions C07_validating_subset.

Theorem C07_split_redecode : forall b v r, de_value true b = Ok (v, r) ->
  exists p, split_off b = Ok (p, r) /\ b = p ++ r /\ de_value true p = Ok (v, []).
Proof. exact split_redecode. Qed.
Print Assumptions C07_split_redecode.

Theorem C07_peek_kind : forall b k, peek_kind b = Ok k -> exists r, b = kind_byte k :: r.
Proof. exact peek_kind_first. Qed.
Print Assumptions C07_peek_kind.

Theorem C07_total : forall b, de_value true b <> Err Fuel /\ skip_value b <> Err Fuel.
Proof. exact totals. Qed.
Print Assumptions C07_total.

(* the decoded tree (nodes + string/bytes payload + keys) is never larger than the input consumed:
   no length field can make the decoder build more than it was given (model-level form of the
   allocation bound; the byte-level bound is observed by the harness) *)
Theorem C07_no_amplification : forall utf8 b v r,
  de_value utf8 b = Ok (v, r) -> (vsize v + length r <= length b)%nat.
Proof. exact no_amplification. Qed.
Print Assumptions C07_no_amplification.

(* the tie to the source expression the defect lived in *)
Theorem C07_key_skip_widths : forall i, key_skip_width i = int_width i.
Proof. exact key_skip_width_ok. Qed.
Print Assumptions C07_key_skip_widths.

Example C07_nonvacuous :
  de_value true [57;1;255;44;1;0] = Ok (VSet (KInt U16) [KeyZ 300], []) /\
  skip_value [57;1;255;44;1;0] = Ok [].
Proof. exact former_witness_ok. Qed.
