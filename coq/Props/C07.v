(* Props/C07.v — decoding untrusted bytes is total; skipping agrees with decoding.
   [de_value true] = Deserializer::new(buf,0)?.deserialize::<Value>() (validates UTF-8),
   [de_value false] = the same walk without UTF-8 validation, [skip_value] = Deserializer::skip,
   [split_off] = Deserializer::split_off_serialized_value, [peek_kind] = SerializedValueSlice::kind.
   [b] ranges over ALL byte strings. *)
From Aldrin Require Import Codec.Base Codec.Value Codec.De Codec.Skip Props.C07_lemmas
  Codec.SkipProofs Codec.Amplify.
Open Scope N_scope.

Theorem C07_skip_agrees : forall b v r, de_value true b = Ok (v, r) -> skip_value b = Ok r.
Proof. exact skip_agrees. Qed.
Print Assumptions C07_skip_agrees.

Theorem C07_skip_exact : forall b r, skip_value b = Ok r <-> (exists v, de_value false b = Ok (v, r)).
Proof. exact skip_exact. Qed.
Print Assumptions C07_skip_exact.

Theorem C07_validating_subset : forall b v r, de_value true b = Ok (v, r) -> de_value false b = Ok (v, r).
Proof. exact validating_subset. Qed.
Print Assumptions C07_validating_subset.

Theorem C07_split_redecode : forall b v r, de_value true b = Ok (v, r) ->
  exists p, split_off b = Ok (p, r) /\ b = p ++ r /\ de_value true p = Ok (v, []).
Proof. exact split_redecode. Qed.
Print Assumptions C07_split_redecode.

Theorem C07_peek_kind : forall b k, peek_kind b = Ok k -> exists r, b = kind_byte k :: r.
Proof. exact peek_kind_first. Qed.
Print Assumptions C07_peek_kind.

Theorem C07_total : forall b, de_value true b <> Err Fuel /\ skip_value b <> Err Fuel.
Proof. exact totals. Qed.
Print Assumptions C07_total.

(* the decoded tree (nodes + string/bytes payload + keys) is never larger than the input consumed:
   no length field can make the decoder build more than it was given (model-level form of the
   allocation bound; the byte-level bound is observed by the harness) *)
Theorem C07_no_amplification : forall utf8 b v r,
  de_value utf8 b = Ok (v, r) -> (vsize v + length r <= length b)%nat.
Proof. exact no_amplification. Qed.
Print Assumptions C07_no_amplification.

(* the tie to the source expression the defect lived in *)
Theorem C07_key_skip_widths : forall i, key_skip_width i = int_width i.
Proof. exact key_skip_width_ok. Qed.
Print Assumptions C07_key_skip_widths.

Example C07_nonvacuous :
  de_value true [57;1;255;44;1;0] = Ok (VSet (KInt U16) [KeyZ 300], []) /\
  skip_value [57;1;255;44;1;0] = Ok [].
Proof. exact former_witness_ok. Qed.

(* ---------- additions: the converse of C07_validating_subset, error kinds, skip bounds ---------- *)
From Aldrin Require Import Codec.Utf8Converse.

(* The value-level converse is FALSE: the non-validating decoder accepts, the decoded value is
   well-formed WITH UTF-8 validation (every string in it is valid), and yet the validating decoder
   rejects — a map entry whose value is an invalid string is overwritten by a later entry with the
   same key (HashMap last-wins insertion), so the invalid string is in the bytes but not in the value. *)
Theorem C07_utf8_converse_naive_refuted :
  exists b v r, de_value false b = Ok (v, r) /\ wf true v = true /\ de_value true b <> Ok (v, r).
Proof. exact utf8_converse_naive_refuted. Qed.
Print Assumptions C07_utf8_converse_naive_refuted.

(* The converse over the BYTES.  [encoded_strings b] = every String payload and every string
   map/set key the encoding of the first value in b contains, in wire order, overwritten duplicates
   included (Codec/Utf8Converse.v: the decoder's walk with the value forgotten);
   [all_strings_valid b] = each of them is valid UTF-8.  The validating decoder accepts exactly when
   the non-validating one does and all encoded strings are valid, with the same value and rest ... *)
Theorem C07_validating_iff : forall b v r,
  de_value true b = Ok (v, r) <-> de_value false b = Ok (v, r) /\ all_strings_valid b = true.
Proof. exact validating_iff. Qed.
Print Assumptions C07_validating_iff.

(* ... and when some encoded string is invalid it fails with InvalidSerialization, nothing else *)
Theorem C07_validating_error : forall b v r,
  de_value false b = Ok (v, r) -> all_strings_valid b = false -> de_value true b = Err Invalid.
Proof. exact validating_error. Qed.
Print Assumptions C07_validating_error.

(* the decoder proper fails with UnexpectedEoi, InvalidSerialization or TooDeeplyNested only *)
Theorem C07_error_kinds : forall utf8 b e,
  de_value utf8 b = Err e -> e = Eoi \/ e = Invalid \/ e = TooDeep.
Proof. exact de_err_kinds. Qed.
Print Assumptions C07_error_kinds.

(* the counterpart of C07_no_amplification for the walkers that build no value: what skip leaves
   over is a proper suffix of the input, and split_off returns a non-empty prefix of the input and
   that suffix — never more bytes than it was given *)
Theorem C07_skip_bounded : forall b r, skip_value b = Ok r -> exists p, b = p ++ r /\ p <> [].
Proof. exact skip_bounded. Qed.
Print Assumptions C07_skip_bounded.

Theorem C07_split_bounded : forall b p r, split_off b = Ok (p, r) ->
  b = p ++ r /\ p <> [] /\ skip_value b = Ok r /\ lenN p <= lenN b.
Proof. exact split_bounded. Qed.
Print Assumptions C07_split_bounded.

Theorem C07_value_len_bounded : forall b n, value_len b = Ok n -> 1 <= n <= lenN b.
Proof. exact value_len_bounded. Qed.
Print Assumptions C07_value_len_bounded.

(* the refuting witness, computed: a U8-keyed map with key 1 twice, values "\xff" then "a" *)
Example C07_naive_witness :
  de_value false [19; 2; 1; 13; 1; 255; 1; 13; 1; 97] = Ok (VMap (KInt U8) [(KeyZ 1, VString [97])], []) /\
  wf true (VMap (KInt U8) [(KeyZ 1, VString [97])]) = true /\
  de_value true [19; 2; 1; 13; 1; 255; 1; 13; 1; 97] = Err Invalid /\
  encoded_strings [19; 2; 1; 13; 1; 255; 1; 13; 1; 97] = [[255]; [97]] /\
  all_strings_valid [19; 2; 1; 13; 1; 255; 1; 13; 1; 97] = false.
Proof. exact naive_witness_facts. Qed.
