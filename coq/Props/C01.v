(* Props/C01.v — Value codec round-trip and nesting limit.  Only statements, [exact] proofs and
   Print Assumptions live here. *)
From Aldrin Require Import Codec.Base Codec.BaseProofs Codec.Value Codec.Ser Codec.De
  Codec.RoundTrip Codec.DeProofs Codec.Depth Codec.KindsTie Props.C01_lemmas.
Open Scope N_scope.

(* varint and zigzag primitives *)
Theorem C01_varint_roundtrip : forall W n r, (1 <= W <= 8)%nat -> n < 256 ^ N.of_nat W ->
  get_varint W (put_varint W n ++ r) = Ok (n, r).
Proof. exact varint_roundtrip. Qed.
Print Assumptions C01_varint_roundtrip.

Theorem C01_zigzag_roundtrip : forall z, zigzag_dec (zigzag_enc z) = z.
Proof. exact zigzag_roundtrip. Qed.
Print Assumptions C01_zigzag_roundtrip.

(* every well-formed value of depth <= 32 serializes, in either epoch, and the bytes decode to
   the same value with nothing left over (de_as_value includes the trailing-data check); [v]
   ranges over every visiting order of map/set/struct entries *)
Theorem C01_roundtrip : forall e v, wf true v = true -> (depth v <= 32)%nat ->
  exists bs, serialize e v = Ok bs /\ de_as_value true bs = Ok v.
Proof. exact roundtrip_top. Qed.
Print Assumptions C01_roundtrip.

Theorem C01_too_deep_ser : forall e v, wf true v = true -> (32 < depth v)%nat ->
  serialize e v = Err TooDeep.
Proof. exact too_deep_ser_top. Qed.
Print Assumptions C01_too_deep_ser.

Theorem C01_too_deep_de : forall e v, wf true v = true -> (32 < depth v)%nat ->
  de_as_value true (ser_raw e v) = Err TooDeep.
Proof. exact too_deep_de_top. Qed.
Print Assumptions C01_too_deep_de.

(* decoded maps/sets are duplicate-free whatever the wire order: equal as sets to what was sent *)
Theorem C01_decoder_total : forall utf8 b, de_value utf8 b <> Err Fuel.
Proof. exact de_value_total. Qed.
Print Assumptions C01_decoder_total.

(* the hypotheses are satisfiable by non-trivial values *)
Example C01_witness_32 : wf true deep32 = true /\ depth deep32 = 32%nat.
Proof. exact deep32_ok. Qed.
Example C01_witness_33 : wf true deep33 = true /\ depth deep33 = 33%nat.
Proof. exact deep33_ok. Qed.

(* ---------- additions: the round trip for values WITH duplicate keys ("maps as sets") ---------- *)
From Aldrin Require Import Codec.MapLastWins.

(* [wfd] = [wf] without the duplicate-freeness requirement on map/set/struct entry lists (the wire
   format and the serialize_map*/set*/struct* API can carry duplicates; a Rust HashMap cannot);
   [norm v] = v with every entry list deduplicated by HashMap-style last-wins insertion
   ([dedup_map]/[dedup_set]/[dedup_struct] of Codec/De.v), recursively.
   Every serializable value round-trips to its normal form, in both epochs ... *)
Theorem C01_roundtrip_general : forall e v, wfd true v = true -> (depth v <= 32)%nat ->
  exists bs, serialize e v = Ok bs /\ de_as_value true bs = Ok (norm v).
Proof. exact roundtrip_general. Qed.
Print Assumptions C01_roundtrip_general.

(* ... which extends C01_roundtrip: wf values are wfd and are their own normal form ... *)
Theorem C01_norm_wf_id : forall v, wf true v = true -> wfd true v = true /\ norm v = v.
Proof. exact (fun v H => conj (wf_wfd true v H) (norm_wf_id true v H)). Qed.
Print Assumptions C01_norm_wf_id.

(* ... and what comes back is always well-formed in the strict sense: no duplicate keys *)
Theorem C01_norm_wf : forall v, wfd true v = true -> wf true (norm v) = true.
Proof. exact (norm_wf true). Qed.
Print Assumptions C01_norm_wf.

(* one map with duplicate keys: the decoded entry list is the last-wins deduplication *)
Theorem C01_map_last_wins : forall e k l, wfd true (VMap k l) = true -> (depth (VMap k l) <= 32)%nat ->
  exists bs, serialize e (VMap k l) = Ok bs /\
             de_as_value true bs = Ok (VMap k (dedup_map (map (fun p => (fst p, norm (snd p))) l))).
Proof. exact map_last_wins. Qed.
Print Assumptions C01_map_last_wins.

(* what the deduplication computes, independently of the fold that defines it: no key twice, and
   looking a key up gives the value of its LAST entry in the original list
   ([map_lookup_last k l] = the value of the last entry of l with key k) *)
Theorem C01_dedup_map_spec : forall l,
  keys_nodup (map fst (dedup_map l)) = true /\
  (forall k, map_lookup_last k (dedup_map l) = map_lookup_last k l) /\
  (length (dedup_map l) <= length l)%nat.
Proof. exact dedup_map_spec. Qed.
Print Assumptions C01_dedup_map_spec.

Theorem C01_dedup_struct_spec : forall l,
  ids_nodup (map fst (dedup_struct l)) = true /\
  (forall k, struct_lookup_last k (dedup_struct l) = struct_lookup_last k l) /\
  (length (dedup_struct l) <= length l)%nat.
Proof. exact dedup_struct_spec. Qed.
Print Assumptions C01_dedup_struct_spec.

Theorem C01_dedup_set_spec : forall l,
  keys_nodup (dedup_set l) = true /\
  (forall k, existsb (key_eqb k) (dedup_set l) = existsb (key_eqb k) l) /\
  (length (dedup_set l) <= length l)%nat.
Proof. exact dedup_set_spec. Qed.
Print Assumptions C01_dedup_set_spec.

(* key equality of the model is equality *)
Theorem C01_key_eqb_eq : forall a b, key_eqb a b = true <-> a = b.
Proof. exact key_eqb_eq. Qed.
Print Assumptions C01_key_eqb_eq.

(* duplicates present: not wf, wfd, decoded to the last-wins normal form in both epochs *)
Example C01_dup_witness :
  wf true dup_map = false /\ wfd true dup_map = true /\
  norm dup_map = VMap (KInt U8) [(KeyZ 2, VBool true); (KeyZ 1, VBool false)] /\
  (bs <- serialize E2 dup_map ;; de_as_value true bs) = Ok (norm dup_map) /\
  (bs <- serialize E1 dup_map ;; de_as_value true bs) = Ok (norm dup_map) /\
  wfd true dup_struct = true /\
  norm dup_struct = VStruct [(1, VNone); (3, VSet KStr [KeyB [98]; KeyB [97]])] /\
  (bs <- serialize E2 dup_struct ;; de_as_value true bs) = Ok (norm dup_struct) /\
  (bs <- serialize E1 dup_struct ;; de_as_value true bs) = Ok (norm dup_struct).
Proof. exact dup_witness. Qed.

(* whatever the wire bytes (any order, any duplicates, either epoch, with or without UTF-8
   validation): a decoded value has no key twice in any map, set or struct at any nesting level *)
Theorem C01_decoded_no_duplicates : forall utf8 b v r, de_value utf8 b = Ok (v, r) -> nodups v = true.
Proof. exact decoded_no_duplicates. Qed.
Print Assumptions C01_decoded_no_duplicates.
