(* Props/C01.v — Value codec round-trip and nesting limit.  Only statements, [exact] proofs and
   Print Assumptions live here. *)
From Aldrin Require Import Codec.Base Codec.BaseProofs Codec.Value Codec.Ser Codec.De
  Codec.RoundTrip Codec.DeProofs Codec.Depth Codec.KindsTie Props.C01_lemmas.
Open Scope N_scope.

(* varint and zigzag primitives *)
Theorem C01_varint_roundtrip : forall W n r, (1 <= W <= 8)%nat -> n < 256 ^ N.of_nat W ->
  get_varint W (put_varint W n ++ r) = Ok (n, r).
Proof. exact varint_roundtrip. Qed.
Print Assumptions C01_varint_roundtrip.

Theorem C01_zigzag_roundtrip : forall z, zigzag_dec (zigzag_enc z) = z.
Proof. exact zigzag_roundtrip. Qed.
Print Assumptions C01_zigzag_roundtrip.

(* every well-formed value of depth <= 32 serializes, in either epoch, and the bytes decode to
   the same value with nothing left over (de_as_value includes the trailing-data check); [v]
   ranges over every visiting order of map/set/struct entries *)
Theorem C01_roundtrip : forall e v, wf true v = true -> (depth v <= 32)%nat ->
  exists bs, serialize e v = Ok bs /\ de_as_value true bs = Ok v.
Proof. exact roundtrip_top. Qed.
Print Assumptions C01_roundtrip.

Theorem C01_too_deep_ser : forall e v, wf true v = true -> (32 < depth v)%nat ->
  serialize e v = Err TooDeep.
Proof. exact too_deep_ser_top. Qed.
Print Assumptions C01_too_deep_ser.

Theorem C01_too_deep_de : forall e v, wf true v = true -> (32 < depth v)%nat ->
  de_as_value true (ser_raw e v) = Err TooDeep.
Proof. exact too_deep_de_top. Qed.
Print Assumptions C01_too_deep_de.

(* decoded maps/sets are duplicate-free whatever the wire order: equal as sets to what was sent *)
Theorem C01_decoder_total : forall utf8 b, de_value utf8 b <> Err Fuel.
Proof. exact de_value_total. Qed.
Print Assumptions C01_decoder_total.

(* the hypotheses are satisfiable by non-trivial values *)
Example C01_witness_32 : wf true deep32 = true /\ depth deep32 = 32%nat.
Proof. exact deep32_ok. Qed.
Example C01_witness_33 : wf true deep33 = true /\ depth deep33 = 33%nat.
Proof. exact deep33_ok. Qed.
