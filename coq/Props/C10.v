(* Props/C10.v — bus listeners report exactly the matching current and new events.
   [blis_*] = broker/src/bus_listener.rs with its cached flags (Proto/BusListener.v);
   [bus] = Broker::emit_bus_event, [handle .. (StartBusListener ..)] = Broker::start_bus_listener
   on the abstract machine (Broker/Model.v); an output is (destination, message, payload tag). *)
From stdpp Require Import gmap list.
From RecordUpdate Require Import RecordSet.
Import RecordSetNotations.
From Aldrin Require Import gen.BrokerConsts Broker.Model Broker.Run Proto.BusListener
  Proto.BusListenerProofs Broker.ListenerProofs Broker.GateProofs Broker.OutProofs Props.C10_lemmas.
Local Open Scope N_scope.

(* ---- the cached flags *)
Theorem C10_flags : forall ops,
  let b := fold_left blis_apply ops blis_new in
  b_all_obj b = existsb is_all_objects (b_filters b) /\
  b_spec_svc b = forallb is_specific (b_filters b) /\
  NoDup (b_filters b) /\
  b_filters b = fold_left abs_apply ops [] /\
  (forall u, blis_matches_object b u = existsb (fun f => matches_object f u) (b_filters b)) /\
  (forall ou su, blis_matches_service b ou su = existsb (fun f => matches_service f ou su) (b_filters b)) /\
  (forall os, exists l, current_objects b os = Some l /\
      l ≡ₚ List.filter (fun p : uuid * obj => existsb (fun f => matches_object f p.1) (b_filters b)) (map_to_list os)) /\
  (forall ss, exists l, current_services b ss = Some l /\
      l ≡ₚ List.filter (fun p : (uuid * uuid) * svc => existsb (fun f => matches_service f p.1.1 p.1.2) (b_filters b)) (map_to_list ss)).
Proof. exact flags_history. Qed.
Print Assumptions C10_flags.

(* ---- new events: once per connection, not per listener *)
Theorem C10_new : forall m ev,
  (forall c, c ∈ bus_targets (ms m) ev -> alive (ms m) c = true) ->
  exists m' new, bus m ev = Done m' /\ ms m' = ms m /\ mo m' = mo m ++ new /\
    NoDup new /\
    (forall o, o ∈ new <-> exists c, o = (c, EmitBusEvent None ev, None) /\
        exists k l, listeners (ms m) !! k = Some l /\ l_owner l = c /\ reports_new l ev = true).
Proof. exact bus_new. Qed.
Print Assumptions C10_new.

(* without the liveness assumption: exactly the live ones among the addressed connections *)
Theorem C10_new_general : forall m ev,
  exists m', bus m ev = Done m' /\ ms m' = ms m /\
    mo m' = mo m ++ (bus_out ev <$> List.filter (alive (ms m)) (elements (bus_targets (ms m) ev))).
Proof. exact bus_spec. Qed.
Print Assumptions C10_new_general.

Theorem C10_new_silent : forall m ev c,
  (forall k l, listeners (ms m) !! k = Some l -> l_owner l = c -> reports_new l ev = false) ->
  forall m', bus m ev = Done m' -> forall x from, (c, x, from) ∈ mo m' -> (c, x, from) ∈ mo m.
Proof. exact bus_silent. Qed.
Print Assumptions C10_new_silent.

(* ---- current entities *)
Theorem C10_current : forall m c cs serial cookie sc l fresh b,
  conns (ms m) !! c = Some cs -> cs_alive cs = true ->
  listeners (ms m) !! cookie = Some l -> l_owner l = c -> l_scope l = None ->
  handle m c (StartBusListener serial cookie sc) fresh b =
  Done (m <| ms; listeners ::= <[cookie := l <| l_scope := Some sc |>]> |>
          <| mo := mo m ++ start_outputs (ms m) c serial cookie sc l |>).
Proof. exact start_current. Qed.
Print Assumptions C10_current.

Theorem C10_current_objects : forall s c serial cookie sc l u oc d from,
  (d, EmitBusEvent (Some cookie) (EvObjectCreated u oc), from) ∈ start_outputs s c serial cookie sc l <->
  d = c /\ from = None /\ includes_current sc = true /\
  exists o, objs s !! u = Some o /\ o_cookie o = oc /\ existsb (fun f => matches_object f u) (l_filters l) = true.
Proof. exact start_outputs_object. Qed.
Print Assumptions C10_current_objects.

Theorem C10_current_services : forall s c serial cookie sc l ou oc su scookie d from,
  (d, EmitBusEvent (Some cookie) (EvServiceCreated ou oc su scookie), from) ∈ start_outputs s c serial cookie sc l <->
  d = c /\ from = None /\ includes_current sc = true /\
  exists sv, svcs s !! (ou, su) = Some sv /\ s_obj_cookie sv = oc /\ s_cookie sv = scookie /\
             existsb (fun f => matches_service f ou su) (l_filters l) = true.
Proof. exact start_outputs_service. Qed.
Print Assumptions C10_current_services.

Theorem C10_current_once : forall s c serial cookie sc l, NoDup (start_outputs s c serial cookie sc l).
Proof. exact start_outputs_NoDup. Qed.
Print Assumptions C10_current_once.

Theorem C10_current_shape : forall s c serial cookie sc l,
  includes_current sc = true ->
  exists mid, start_outputs s c serial cookie sc l =
    (c, StartBusListenerReply serial STOk, None) :: mid ++ [(c, BusListenerCurrentFinished cookie, None)] /\
    Forall (fun o => exists ev, o = (c, EmitBusEvent (Some cookie) ev, None) /\
                       match ev with EvObjectCreated _ _ | EvServiceCreated _ _ _ _ => True | _ => False end) mid.
Proof. exact start_outputs_shape. Qed.
Print Assumptions C10_current_shape.

(* nothing else carries a listener's tag, in any step from any state *)
Theorem C10_tag : forall s e fresh b s' o d k f,
  step s e fresh b = Done (s', o) ->
  ((exists ev, (d, EmitBusEvent (Some k) ev, f) ∈ o) \/ (d, BusListenerCurrentFinished k, f) ∈ o) ->
  exists serial sc, e = Message d (StartBusListener serial k sc).
Proof. exact step_tagged. Qed.
Print Assumptions C10_tag.

(* ---- silence *)
Theorem C10_silent_start_invalid : forall m c cs serial cookie sc fresh b,
  conns (ms m) !! c = Some cs ->
  (listeners (ms m) !! cookie = None \/ exists l, listeners (ms m) !! cookie = Some l /\ l_owner l <> c) ->
  handle m c (StartBusListener serial cookie sc) fresh b = send m c (StartBusListenerReply serial STInvalid) None.
Proof. exact start_invalid. Qed.
Print Assumptions C10_silent_start_invalid.

Theorem C10_silent_already : forall m c cs serial cookie sc l sc0 fresh b,
  conns (ms m) !! c = Some cs -> listeners (ms m) !! cookie = Some l -> l_owner l = c ->
  l_scope l = Some sc0 ->
  handle m c (StartBusListener serial cookie sc) fresh b = send m c (StartBusListenerReply serial STAlready) None.
Proof. exact start_already. Qed.
Print Assumptions C10_silent_already.

Theorem C10_silent_stop : forall m c cs serial cookie l fresh b,
  conns (ms m) !! c = Some cs -> listeners (ms m) !! cookie = Some l -> l_owner l = c ->
  handle m c (StopBusListener serial cookie) fresh b =
  send (m <| ms; listeners ::= <[cookie := l <| l_scope := None |>]> |>) c
       (StopBusListenerReply serial (match l_scope l with Some _ => SPOk | None => SPNotStarted end)) None.
Proof. exact stop_owned. Qed.
Print Assumptions C10_silent_stop.

Theorem C10_silent_unstarted : forall l ev, l_scope l = None -> reports_new l ev = false.
Proof. exact reports_new_unstarted. Qed.
Print Assumptions C10_silent_unstarted.

Theorem C10_silent_nomatch : forall l ev,
  (forall f, In f (l_filters l) -> matches_event f ev = false) -> reports_new l ev = false.
Proof. exact reports_new_nomatch. Qed.
Print Assumptions C10_silent_nomatch.

(* ---- order within a step: object-created, then service-created, then destroyed events *)
Theorem C10_order : forall s e fresh b s' o, step s e fresh b = Done (s', o) -> ordered o.
Proof. exact step_ordered. Qed.
Print Assumptions C10_order.

(* ---- the hypotheses are satisfiable *)
Example C10_flags_nonvacuous :
  let b := fold_left blis_apply [OpAdd (FObject None); OpAdd (FService (Some 1) (Some 2)); OpRemove (FObject None)] blis_new in
  b_filters b = [FService (Some 1) (Some 2)] /\ b_all_obj b = false /\ b_spec_svc b = true.
Proof. repeat split. Qed.
