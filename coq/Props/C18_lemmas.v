(* Props/C18_lemmas.v — adapters and witnesses for Props/C18.v *)
From Coq Require Import String List Bool Arith Lia Permutation.
From Aldrin Require Import Schema.Ast Schema.Token Schema.Printer Schema.Lexer Schema.Parser
  Schema.ParserProofs Schema.CanonProofs Schema.IndentProofs.
Import ListNotations.
Open Scope string_scope.

Lemma indent_bound : forall ind a,
  (forall n, n <= 12 -> ind n = indent_real n) -> print_with ind a = print a.
Proof. intros ind a H. now apply print_indent_ext. Qed.

Lemma imports_permuted : forall a, Permutation (s_imports (canon a)) (s_imports a).
Proof. intros. apply sort_imports_perm. Qed.

(* ---- the defect: a field that is not required and is called "required" ---- *)

Definition required_src : string := "struct S {required@1=u8;}".

Definition required_ast : schema :=
  {| s_comment := []; s_doc := []; s_imports := [];
     s_defs := [DStruct {| sd_comment := []; sd_doc := []; sd_attrs := []; sd_name := "S";
                           sd_fields := [{| f_comment := []; f_doc := []; f_req := false;
                                            f_name := "required"; f_id := "1"; f_ty := TPrim PU8 |}];
                           sd_fb := None |}] |}.

Lemma required_field_witness :
  parse_toks (tokenize required_src) = Some required_ast /\
  parse_toks (toks required_ast) = None /\
  parse_toks (tokenize (print required_ast)) = None.
Proof. vm_compute. auto. Qed.

Lemma required_field_refuted :
  exists src a, parse_toks (tokenize src) = Some a /\ parse_toks (tokenize (print a)) = None.
Proof. exists required_src, required_ast. pose proof required_field_witness. tauto. Qed.

(* ---- a non-trivial well-formed AST: every kind of definition, preludes, inline types ---- *)

Definition ex_field (n : string) (r : bool) (t : ty) : field :=
  {| f_comment := ["c"]; f_doc := ["d"; ""]; f_req := r; f_name := n; f_id := "1"; f_ty := t |}.

Definition example_ast : schema :=
  {| s_comment := ["top"]; s_doc := ["Doc."];
     s_imports := [{| i_comment := []; i_name := "zeta" |}; {| i_comment := ["why"]; i_name := "alpha" |}];
     s_defs :=
       [DStruct {| sd_comment := ["c"]; sd_doc := ["d"]; sd_attrs := [{| a_name := "rust"; a_opts := ["impl_copy"; "x"] |}];
                   sd_name := "struct";
                   sd_fields := [ex_field "a" true (TMap (TPrim PU8) (TGen GVec (TRef (Extern "zeta" "T"))));
                                 ex_field "required" true (TArray (TResult (TPrim PUnit) (TRef (Intern "option"))) (LRef (Intern "N")))];
                   sd_fb := Some {| fb_comment := []; fb_doc := ["f"]; fb_name := "required" |} |};
        DEnum {| ed_comment := []; ed_doc := []; ed_attrs := []; ed_name := "E";
                 ed_vars := [{| v_comment := []; v_doc := []; v_name := "A"; v_id := "-1"; v_ty := None |};
                             {| v_comment := ["x"]; v_doc := []; v_name := "B"; v_id := "2"; v_ty := Some (TPrim PString) |}];
                 ed_fb := None |};
        DService {| sv_comment := []; sv_doc := ["S"]; sv_name := "S"; sv_uuid_comment := ["u"];
                    sv_uuid := "6ac4a2ad-5b0a-4a5e-9a3c-0a1b2c3d4e5f"; sv_ver_comment := []; sv_ver := "1";
                    sv_items :=
                      [IFn {| fn_comment := []; fn_doc := []; fn_name := "f"; fn_id := "1"; fn_args := None;
                              fn_ok := Some {| p_comment := []; p_ty := ITy (TPrim PU8) |}; fn_err := None |};
                       IFn {| fn_comment := ["c"]; fn_doc := []; fn_name := "g"; fn_id := "2";
                              fn_args := Some {| p_comment := ["a"]; p_ty := IStruct ["i"] [] [ex_field "x" false (TPrim PBool)] None |};
                              fn_ok := None;
                              fn_err := Some {| p_comment := []; p_ty := IEnum [] [{| a_name := "a"; a_opts := [] |}] [] None |} |};
                       IEv {| ev_comment := []; ev_doc := []; ev_name := "e"; ev_id := "1"; ev_ty := Some (IStruct [] [] [] None) |}];
                    sv_fn_fb := Some {| fb_comment := []; fb_doc := []; fb_name := "ff" |};
                    sv_ev_fb := Some {| fb_comment := ["c"]; fb_doc := []; fb_name := "ef" |} |};
        DConst {| cd_comment := []; cd_doc := []; cd_name := "N"; cd_ty := CString; cd_val := """a\""b""" |};
        DNewtype {| nd_comment := []; nd_doc := []; nd_attrs := []; nd_name := "Id"; nd_ty := TPrim PUuid |}] |}.

Lemma example_wf : wf_ast example_ast.
Proof.
  split; [discriminate|].
  repeat constructor; cbn; try reflexivity; try discriminate; auto.
Qed.

(* on the example the whole chain runs at the character level as well *)
Lemma example_roundtrip :
  parse_toks (toks example_ast) = Some (canon example_ast) /\
  tokenize (print example_ast) = toks example_ast /\
  parse_toks (tokenize (print example_ast)) = Some (canon example_ast) /\
  print (canon example_ast) = print example_ast /\
  canon example_ast <> example_ast.
Proof. vm_compute. repeat split; try reflexivity. discriminate. Qed.

(* ---- the character level: [tokenize (print a) = toks a] and the property on the model ---- *)
From Aldrin Require Import Schema.LexerProofs Schema.PrintLex Schema.PrintLexProofs.

(* the property itself, on the model, at the character level: re-parsing the formatted text gives
   the same schema (imports sorted) *)
Lemma format_preserves : forall a, wf_ast a -> printable a ->
  parse_toks (tokenize (print a)) = Some (canon a).
Proof. intros a Hwf Hp. rewrite print_tokens by assumption. now apply parse_toks_toks. Qed.

(* ... and formatting the re-parsed text again gives the same text *)
Lemma format_idempotent_chars : forall a, wf_ast a -> printable a ->
  option_map print (parse_toks (tokenize (print a))) = Some (print a).
Proof.
  intros a Hwf Hp. rewrite format_preserves by assumption. cbn [option_map]. now rewrite print_canon.
Qed.

(* the formatted text of a printable schema is again printable: the side condition is stable *)
Lemma printable_canon : forall a, printable a -> printable (canon a).
Proof.
  intros a [Hc [Hd [Hi Hdf]]]. unfold printable, canon. cbn [s_comment s_doc s_imports s_defs].
  repeat split; try assumption.
  eapply Permutation_Forall; [|exact Hi]. apply Permutation_sym, sort_imports_perm.
Qed.

(* what the leaf conditions mean: each leaf, on its own, is one token of its kind *)
Lemma leaf_conditions :
  (forall w, ident_ok w = true -> tokenize w = [TWord w true]) /\
  (forall d, int_ok d = true -> tokenize d = [TInt d]) /\
  (forall v, str_ok v = true -> tokenize v = [TStr v]) /\
  (forall v, uuid_ok v = true -> tokenize v = [TUuid v]) /\
  (forall s, text_ok s = true -> tokenize ("//" ++ line_body s ++ LF) = [TComment s]).
Proof.
  repeat split.
  - exact ident_ok_spec.
  - intros d H. rewrite <- (append_nil_r d) at 1. now rewrite tk_int by (assumption || exact I).
  - intros v H. rewrite <- (append_nil_r v) at 1. now rewrite tk_str.
  - intros v H. rewrite <- (append_nil_r v) at 1. now rewrite tk_uuid.
  - intros s H. rewrite <- (append_nil_r LF). now rewrite tk_comment_line.
Qed.

Lemma example_printable : printable example_ast.
Proof.
  unfold printable, example_ast. cbn [s_comment s_doc s_imports s_defs].
  repeat (first [ split | constructor | reflexivity ]).
Qed.

(* identifiers outside ASCII that the model lexer classifies are covered *)
Definition nonascii_ast : schema :=
  {| s_comment := []; s_doc := []; s_imports := [];
     s_defs := [DConst {| cd_comment := ["caf" ++ String (Ascii.ascii_of_nat 195) (String (Ascii.ascii_of_nat 169) "")];
                          cd_doc := []; cd_name := String (Ascii.ascii_of_nat 206) (String (Ascii.ascii_of_nat 187) "x1");
                          cd_ty := CI8; cd_val := "-12" |}] |}.

Lemma nonascii_printable : printable nonascii_ast.
Proof.
  unfold printable, nonascii_ast. cbn [s_comment s_doc s_imports s_defs].
  repeat (first [ split | constructor | reflexivity ]).
Qed.

(* ---- for every source text: what the parser produces is printable, so the character-level
   round trip needs no side condition but the field-name one ---- *)
From Aldrin Require Import Schema.ReachProofs Schema.PrintLexReach.

Lemma format_roundtrip : forall src a,
  parse_toks (tokenize src) = Some a -> no_bare_required a ->
  parse_toks (tokenize (print a)) = Some (canon a) /\
  option_map print (parse_toks (tokenize (print a))) = Some (print a).
Proof.
  intros src a H Hn. pose proof (parse_printable src a H) as Hp.
  assert (E : parse_toks (tokenize (print a)) = Some (canon a)).
  { rewrite print_tokens by assumption. eapply parse_toks_reachable; eassumption. }
  split; [exact E|]. rewrite E. cbn [option_map]. now rewrite print_canon.
Qed.

(* formatting is a fixpoint after one step: the formatted text, taken as a source, parses to a
   schema whose formatted text is the same text *)
Lemma format_fixpoint : forall src a,
  parse_toks (tokenize src) = Some a -> no_bare_required a ->
  exists a', parse_toks (tokenize (print a)) = Some a' /\ print a' = print a /\
             printable a' /\ canon a' = a'.
Proof.
  intros src a H Hn. destruct (format_roundtrip src a H Hn) as [E _].
  exists (canon a). split; [exact E|]. split; [apply print_canon|]. split; [|apply canon_idem].
  apply printable_canon. eapply parse_printable; eassumption.
Qed.
