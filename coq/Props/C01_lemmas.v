(* Props/C01_lemmas.v — top-level corollaries and witnesses used by Props/C01.v *)
From Aldrin Require Import Codec.Base Codec.BaseProofs Codec.Value Codec.Ser Codec.De
  Codec.RoundTrip Codec.DeProofs Codec.Depth.
Open Scope N_scope.

Lemma de_value_total utf8 b : de_value utf8 b <> Err Fuel.
Proof. unfold de_value. apply de_enough. lia. Qed.

Lemma roundtrip_top e v : wf true v = true -> (depth v <= 32)%nat ->
  exists bs, serialize e v = Ok bs /\ de_as_value true bs = Ok v.
Proof.
  intros Hwf Hd. destruct (proj1 (ser_total true e v 0 Hwf)) as [bs Hs]; [unfold fits; lia|].
  exists bs. split; [exact Hs|]. unfold de_as_value.
  pose proof (ser_de true e v 0 bs Hwf Hs (fuel_of v) [] (le_n _)) as H. rewrite app_nil_r in H.
  rewrite (de_value_stable _ _ _ _ H) by discriminate. reflexivity.
Qed.

Lemma too_deep_ser_top e v : wf true v = true -> (32 < depth v)%nat -> serialize e v = Err TooDeep.
Proof. intros Hwf Hd. apply (proj2 (ser_total true e v 0 Hwf)). unfold fits. lia. Qed.

Lemma too_deep_de_top e v : wf true v = true -> (32 < depth v)%nat ->
  de_as_value true (ser_raw e v) = Err TooDeep.
Proof.
  intros Hwf Hd. unfold de_as_value.
  pose proof (de_too_deep true e v 0 Hwf ltac:(unfold fits; lia) (fuel_of v) [] (le_n _)) as H.
  rewrite app_nil_r in H. rewrite (de_value_stable _ _ _ _ H) by discriminate. reflexivity.
Qed.

(* a chain using every nesting step (Some, Vec, Map with varint key above the one-byte range,
   Struct, Enum) down to a set leaf *)
Fixpoint chain (n : nat) (leaf : Value) : Value :=
  match n with
  | O => leaf
  | S n' =>
      match Nat.modulo n 5 with
      | 0%nat => VSome (chain n' leaf)
      | 1%nat => VVec [VInt U8 7; chain n' leaf]
      | 2%nat => VMap (KInt U16) [(KeyZ 300, chain n' leaf); (KeyZ 1, VNone)]
      | 3%nat => VStruct [(70000, chain n' leaf)]
      | _ => VEnum 4294967295 (chain n' leaf)
      end
  end.
Definition leaf_set : Value := VSet (KInt I64) [KeyZ (-1000); KeyZ 9223372036854775807].
Definition deep32 := chain 31 leaf_set.
Definition deep33 := chain 32 leaf_set.

Lemma deep32_ok : wf true deep32 = true /\ depth deep32 = 32%nat.
Proof. split; vm_compute; reflexivity. Qed.
Lemma deep33_ok : wf true deep33 = true /\ depth deep33 = 33%nat.
Proof. split; vm_compute; reflexivity. Qed.

(* tests (not proofs of the property): the concrete witnesses behave as the theorems say *)
Example deep32_roundtrips :
  (bs <- serialize E2 deep32 ;; de_as_value true bs) = Ok deep32 /\
  (bs <- serialize E1 deep32 ;; de_as_value true bs) = Ok deep32.
Proof. split; vm_compute; reflexivity. Qed.
Example deep33_rejected :
  serialize E2 deep33 = Err TooDeep /\ de_as_value true (ser_raw E2 deep33) = Err TooDeep /\
  serialize E1 deep33 = Err TooDeep /\ de_as_value true (ser_raw E1 deep33) = Err TooDeep.
Proof. repeat split; vm_compute; reflexivity. Qed.
