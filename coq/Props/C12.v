(* Props/C12.v — version negotiation, feature gating, cross-version payload tags.
   [select] = broker/src/acceptor.rs select_protocol_version, [accept] = Acceptor::new + accept
   (Proto/Accept.v); [step]/[handle] = the abstract broker machine (Broker/Model.v);
   [min_version_of]/[msg_min_version] = the literal version tables of Broker/GateProofs.v, tied to
   the constants read from broker.rs by gates_tie/gates_out_tie.  An output is
   (destination, message, version of the peer that produced the payload). *)
From stdpp Require Import gmap list.
From RecordUpdate Require Import RecordSet.
Import RecordSetNotations.
From Coq Require Import Lia.
From Aldrin Require Import Proto.ClientGateTie.
From Aldrin Require Import gen.BrokerConsts Broker.Model Broker.Run Proto.Accept Proto.AcceptProofs
  Broker.GateProofs Broker.OutProofs Props.C12_lemmas.
Local Open Scope N_scope.

(* ---- handshake *)
Theorem C12_handshake : forall major minor c2 r,
  select major minor c2 = Some r <->
  major = 1 /\ ((c2 = true /\ 14 <= minor /\ r = (1, N.min minor 20)) \/
                (c2 = false /\ minor = 14 /\ r = (1, 14))).
Proof. exact select_spec. Qed.
Print Assumptions C12_handshake.

Theorem C12_handshake_incompatible : forall h c2 ma mi,
  requested h = Some (c2, (ma, mi)) -> select ma mi c2 = None ->
  accept h = (AIncompatible (ma, mi),
              if c2 then RConnectReply2Incompatible else RConnectReplyIncompatible 14).
Proof. exact accept_incompatible. Qed.
Print Assumptions C12_handshake_incompatible.

Theorem C12_handshake_range : forall h c2 v r,
  accept h = (AAccepted c2 v, r) -> fst v = 1 /\ 14 <= snd v <= 20.
Proof. exact accepted_range. Qed.
Print Assumptions C12_handshake_range.

(* ---- gate-in: a message newer than the sender's version removes the sender *)
Theorem C12_gate_in : forall s c cs x v fresh b s' o,
  conns s !! c = Some cs -> min_version_of x = Some v -> cs_ver cs < v ->
  step s (Message c x) fresh b = Done (s', o) -> conns s' !! c = None.
Proof. exact gate_in. Qed.
Print Assumptions C12_gate_in.

(* ---- gate-out *)
(* every reachable state whose connections came out of the handshake *)
Theorem C12_gate_out : forall s e fresh b s' o c x from,
  reachable_hs s -> step s e fresh b = Done (s', o) -> (c, x, from) ∈ o ->
  exists cs, conns s !! c = Some cs /\ msg_min_version x <= cs_ver cs.
Proof. exact gate_out_hs. Qed.
Print Assumptions C12_gate_out.

(* every reachable state, whatever versions the connections were registered with *)
Theorem C12_gate_out_reachable : forall s e fresh b s' o c x from,
  reachable s -> step s e fresh b = Done (s', o) -> (c, x, from) ∈ o ->
  exists cs, conns s !! c = Some cs /\ (msg_min_version x = 14 \/ msg_min_version x <= cs_ver cs).
Proof. exact gate_out. Qed.
Print Assumptions C12_gate_out_reachable.

(* every state at all (no invariant needed), with the one exempted kind *)
Theorem C12_gate_out_partial : forall s e fresh b s' o c x from,
  step s e fresh b = Done (s', o) -> (c, x, from) ∈ o ->
  exists cs, conns s !! c = Some cs /\
    (msg_min_version x = 14 \/ msg_min_version x <= cs_ver cs \/ exists sc, x = UnsubscribeAllEvents None sc).
Proof. exact gate_out_partial. Qed.
Print Assumptions C12_gate_out_partial.

Theorem C12_versions_stable : forall s e fresh b s' o c cs',
  step s e fresh b = Done (s', o) -> conns s' !! c = Some cs' ->
  (exists cs, conns s !! c = Some cs /\ cs_ver cs' = cs_ver cs) \/
  (exists ver, e = NewConnection c ver /\ cs_ver cs' = ver).
Proof. exact versions_stable. Qed.
Print Assumptions C12_versions_stable.

(* ---- re-encoding *)
Theorem C12_call_reencoded : forall m c cs serial sc fn ver v bserial k s callee ccs b nxt,
  svc_by_cookie (ms m) sc = Some (k, s) -> owner_of_svc (ms m) k = Some callee ->
  conns (ms m) !! c = Some cs -> pick_serial (ms m) bserial = Some (b, nxt) ->
  cs_calls cs !! serial = None -> conns (ms m) !! callee = Some ccs -> cs_alive ccs = true ->
  exists m', call_impl m c serial sc fn ver v bserial = Done m' /\
    mo m' = mo m ++ [(callee, (if 19 <=? cs_ver ccs then CallFunction2 b sc fn ver v else CallFunction b sc fn v),
                      Some (cs_ver cs))].
Proof. exact call_forward. Qed.
Print Assumptions C12_call_reencoded.

Theorem C12_subscribe_all_cleared : forall m c cs serial oc u i fresh b,
  conns (ms m) !! c = Some cs -> cs_ver cs = 17 ->
  handle m c (CreateService2 serial oc u (Some i)) fresh b =
  create_service_impl m c serial oc u
    (Some {| i_version := i_version i; i_type_id := i_type_id i; i_sub_all := Some false |}) fresh.
Proof. exact create_service2_old_creator. Qed.
Print Assumptions C12_subscribe_all_cleared.

(* ---- payload tags *)
Theorem C12_payload_tag : forall m c cs x fresh b m',
  conns (ms m) !! c = Some cs ->
  handle m c x fresh b = Done m' \/ handle m c x fresh b = Fail m' ->
  exists new, mo m' = mo m ++ new /\ Forall (payload_tag_ok (cs_ver cs)) new.
Proof. exact payload_tag. Qed.
Print Assumptions C12_payload_tag.

(* in a whole step (handler + work loop) a version tag occurs only on a payload forwarded from
   the connection that sent the triggering message *)
Theorem C12_tag_origin : forall s e fresh b s' o d y v,
  step s e fresh b = Done (s', o) -> (d, y, Some v) ∈ o ->
  exists c x cs, e = Message c x /\ conns s !! c = Some cs /\ cs_ver cs = v /\
    match y with
    | CallFunction _ _ _ _ | CallFunction2 _ _ _ _ _ | EmitEvent _ _ _ | ItemReceived _ _ => True
    | CallFunctionReply _ r => exists serial, x = CallFunctionReply serial r
    | _ => False
    end.
Proof. exact step_from. Qed.
Print Assumptions C12_tag_origin.

(* ---- the hypotheses are satisfiable *)
Example C12_handshake_nonvacuous :
  select 1 23 true = Some (1, 20) /\ select 1 14 false = Some (1, 14) /\
  select 1 15 false = None /\ select 2 14 true = None /\ select 1 13 true = None.
Proof. repeat split. Qed.

Definition one_conn (v : N) : state :=
  init <| conns := {[ 7 := {| cs_ver := v; cs_alive := true; cs_calls := ∅ |} ]} |>.

Example C12_gate_in_nonvacuous :
  exists s' o, step (one_conn 18) (Message 7 (CallFunction2 1 2 3 None 4)) 5 None = Done (s', o) /\
               conns s' !! 7 = None.
Proof.
  destruct (step (one_conn 18) (Message 7 (CallFunction2 1 2 3 None 4)) 5 None) as [[s' o]| |] eqn:E.
  - exists s', o. split; [reflexivity|]. eapply (gate_in (one_conn 18) 7 {| cs_ver := 18; cs_alive := true; cs_calls := ∅ |} (CallFunction2 1 2 3 None 4) 19 5 None s' o); [reflexivity|reflexivity|cbn; lia|exact E].
  - exfalso. unfold step in E. destruct (handle _ _ _ _ _); try discriminate E; destruct (settle _ _); discriminate E.
  - exfalso. revert E. vm_compute. discriminate.
Qed.

(* ---- the CLIENT library applies the same table when it sends: every version-gated send of
   aldrin/src/client.rs (gates read from the source by the translator) happens only at a version at
   which the protocol admits the message kind, and at exactly its introduction version *)
Theorem C12_client_send_gates :
  forallb gate_admits client_send_gates = true /\
  map (fun p => Some (fst p)) client_send_gates = map (fun p => min_version_of (snd p)) client_send_gates.
Proof. exact (conj client_send_gates_sound client_send_gates_exact). Qed.
Print Assumptions C12_client_send_gates.
