(* Props/C14.v — byte-stream framing is independent of fragmentation and backpressure.

   Packetizer (core/src/message/packetizer.rs, model Stream/Packetizer.v):
     [ops] ranges over ALL sequences of  OExt room bs  (extend_from_slice),  OSpare room
     (spare_capacity_mut),  OWr bs  (fill the slice, bytes_written)  and  ONext  (next_message),
     i.e. every chunking down to single bytes, through either interface, with next_message calls
     interleaved arbitrarily; [room] ranges over every capacity BytesMut::reserve may choose.
     [sh] is the control-flow shape of spare_capacity_mut ([this_shape] = the one in the tree).
     [fed] = bytes put in, [delivered] = frames returned so far, [drained_frames] = frames returned
     by calling next_message until None, [leftover] = what stays buffered after that.
   TokioTransport / Buffered (core/src/tokio.rs, core/src/transport/buffered.rs, model
   Stream/Tokio.v): [r], [w] range over ALL scripts of read results (ReadOk bs | ReadPending |
   ReadErr k) and write/flush results (WriteOk n | WritePending | WriteErr k); [ops] over all
   sequences of receive_poll / send_start / send_poll_ready / send_poll_flush. *)
From Aldrin Require Import Codec.Base gen.StreamConsts Stream.Packetizer Stream.PacketizerProofs
  Stream.Tokio Stream.TokioProofs Stream.StreamTie Props.C14_lemmas.
Open Scope N_scope.

(* ---------------- packetizer ---------------- *)

Theorem C14_frames : forall sh ops fs,
  Forall frame_ok fs -> fed sh ops = concat fs ->
  delivered sh ops ++ drained_frames (final sh ops) = fs /\ leftover (final sh ops) = [].
Proof. exact frames_exact'. Qed.
Print Assumptions C14_frames.

(* the same while a proper prefix [rest] of a further frame is in flight *)
Theorem C14_frames_prefix : forall sh ops fs rest,
  Forall frame_ok fs -> incomplete rest -> fed sh ops = concat fs ++ rest ->
  delivered sh ops ++ drained_frames (final sh ops) = fs /\ leftover (final sh ops) = rest.
Proof. exact frames_prefix'. Qed.
Print Assumptions C14_frames_prefix.

(* the headline, stated across two arbitrary runs over the same bytes: whatever the chunking,
   the interface, the interleaving of next_message, the capacities chosen by reserve and the
   shape of spare_capacity_mut, the frames obtained and the bytes left over are the same *)
Theorem C14_fragmentation_independent : forall sh1 sh2 ops1 ops2 fs rest,
  Forall frame_ok fs -> incomplete rest ->
  fed sh1 ops1 = concat fs ++ rest -> fed sh2 ops2 = fed sh1 ops1 ->
  delivered sh1 ops1 ++ drained_frames (final sh1 ops1) =
    delivered sh2 ops2 ++ drained_frames (final sh2 ops2) /\
  leftover (final sh1 ops1) = leftover (final sh2 ops2).
Proof. exact frag_independent. Qed.
Print Assumptions C14_fragmentation_independent.

(* at every point of a run: only complete frames, in order; no byte lost or duplicated *)
Theorem C14_only_complete : forall sh ops1 ops2 fs rest,
  Forall frame_ok fs -> incomplete rest -> fed sh (ops1 ++ ops2) = concat fs ++ rest ->
  (exists k, delivered sh ops1 = firstn k fs) /\
  concat (delivered sh ops1) ++ buf (final sh ops1) = fed sh ops1.
Proof. exact only_complete'. Qed.
Print Assumptions C14_only_complete.

(* "The slice returned by this function is guaranteed to be non-empty": true of every shape that
   applies the `capacity == len` fallback on all paths ... *)
Theorem C14_spare_nonempty : forall sh s room,
  sh <> ShapeOrig -> reachable sh s -> 0 < snd (spare sh room s).
Proof. exact spare_nonempty'. Qed.
Print Assumptions C14_spare_nonempty.

(* ... true of every shape, the original one included, right after next_message answered None
   (the discipline of TokioTransport::receive_poll) ... *)
Theorem C14_spare_nonempty_drained : forall sh s room,
  reachable sh s -> snd (next_message s) = None -> 0 < snd (spare sh room (fst (next_message s))).
Proof. exact spare_nonempty_drained'. Qed.
Print Assumptions C14_spare_nonempty_drained.

(* ... and false of the shape found at the pinned commit: a complete frame is buffered,
   len == capacity, a length is cached, and the slice is empty (debug build: assertion) *)
Theorem C14_spare_nonempty_refuted :
  exists s room, reachable ShapeOrig s /\ snd (spare ShapeOrig room s) = 0 /\
                 snd (drain_all s) = [[8;0;0;0;1;2;3;4]].
Proof. exact spare_nonempty_refuted. Qed.
Print Assumptions C14_spare_nonempty_refuted.

(* which of the two holds for the tree the translator has just read *)
Theorem C14_spare_this_tree :
  match this_shape with
  | ShapeOrig => exists s room, reachable this_shape s /\ snd (spare this_shape room s) = 0
  | _ => forall s room, reachable this_shape s -> 0 < snd (spare this_shape room s)
  end.
Proof. exact spare_this_tree. Qed.
Print Assumptions C14_spare_this_tree.

(* ---------------- TokioTransport ---------------- *)

(* bytes accepted by the I/O object ++ write buffer = the serialized messages in send order *)
Theorem C14_tokio_send : forall sh ops r w,
  snd (trun sh ops (tk_new r w)) ++ wbuf (fst (fst (fst (trun sh ops (tk_new r w))))) = sent_of ops.
Proof. exact tokio_send. Qed.
Print Assumptions C14_tokio_send.

(* Ready(Ok) from a flush: everything sent before has been accepted, the write buffer is empty,
   and the last thing consumed from the I/O object was its flush answering Ok *)
Theorem C14_tokio_flush : forall sh ops r w t1 obs1 c1 o1 t2 out,
  trun sh ops (tk_new r w) = (t1, obs1, c1, o1) ->
  send_poll_flush t1 = (t2, PReady tt, out) ->
  o1 ++ out = sent_of ops /\ wbuf t2 = [] /\
  exists pre n, wscript t1 = pre ++ WriteOk n :: wscript t2.
Proof. exact tokio_flush. Qed.
Print Assumptions C14_tokio_flush.

Theorem C14_tokio_write_zero : forall t w,
  wbuf t <> [] -> wscript t = WriteOk 0 :: w ->
  send_poll_flush t = (mkTk (pz t) (wbuf t) (rscript t) w, PErr EWriteZero, []).
Proof. exact tokio_write_zero. Qed.
Print Assumptions C14_tokio_write_zero.

Theorem C14_tokio_write_zero_only : forall t t' out,
  send_poll_flush t = (t', PErr EWriteZero, out) ->
  wbuf t' <> [] /\ exists pre, wscript t = pre ++ WriteOk 0 :: wscript t'.
Proof. exact tokio_write_zero_only. Qed.
Print Assumptions C14_tokio_write_zero_only.

(* delivered = a prefix of the frames the reader supplies, in order; their bytes ++ the
   packetizer buffer = bytes read so far; never a panic, never out of fuel *)
Theorem C14_tokio_recv : forall sh ops r w fs rest t' obs cin wout,
  Forall frame_ok fs -> incomplete rest -> script_data r = concat fs ++ rest ->
  trun sh ops (tk_new r w) = (t', obs, cin, wout) ->
  (exists k, recv_frames obs = firstn k fs) /\
  concat (recv_frames obs) ++ buf (pz t') = cin /\
  cin ++ script_data (rscript t') = script_data r /\
  Forall (fun ob => ob <> TObsRecv PPanic /\ ob <> TObsRecv PFuel) obs.
Proof. exact tokio_recv. Qed.
Print Assumptions C14_tokio_recv.

(* every message is delivered once the reader has handed over all its bytes *)
Theorem C14_tokio_recv_complete : forall sh ops rooms r w fs rest t' obs cin wout,
  Forall frame_ok fs -> incomplete rest -> script_data r = concat fs ++ rest ->
  trun sh (ops ++ [TRecv rooms]) (tk_new r w) = (t', obs, cin, wout) ->
  (forall f, last obs TObsSend <> TObsRecv (PReady f)) ->
  script_data (rscript t') = [] ->
  recv_frames obs = fs /\ buf (pz t') = rest.
Proof. exact tokio_recv_complete. Qed.
Print Assumptions C14_tokio_recv_complete.

Theorem C14_tokio_recv_eof : forall sh fuel rooms t rs,
  pz_ok t -> snd (next_message (pz t)) = None -> rscript t = ReadOk [] :: rs ->
  snd (fst (receive_poll sh (S fuel) rooms t)) = PErr EUnexpectedEof.
Proof. exact tokio_recv_eof. Qed.
Print Assumptions C14_tokio_recv_eof.

Theorem C14_tokio_recv_eof_only : forall sh fuel rooms t t' c,
  pz_ok t -> (script_bytes (rscript t) < fuel)%nat ->
  receive_poll sh fuel rooms t = (t', PErr EUnexpectedEof, c) -> In (ReadOk []) (rscript t).
Proof. exact tokio_recv_eof_only. Qed.
Print Assumptions C14_tokio_recv_eof_only.

(* ---------------- Buffered ---------------- *)

Theorem C14_buffered_fifo : forall ops b b' obs wout,
  brun ops b = (b', obs, wout) ->
  wout ++ wbuf (inner b') ++ concat (queue b') = wbuf (inner b) ++ concat (queue b) ++ bsent_of ops.
Proof. exact buffered_fifo. Qed.
Print Assumptions C14_buffered_fifo.

Theorem C14_buffered_flush : forall b b' out,
  b_send_poll_flush b = (b', PReady tt, out) ->
  out = wbuf (inner b) ++ concat (queue b) /\ wbuf (inner b') = [] /\ queue b' = [].
Proof. exact buffered_flush. Qed.
Print Assumptions C14_buffered_flush.

(* ---------------- the hypotheses are satisfiable; numbers of the property text ---------------- *)

(* a 5-byte frame and a frame beyond the 64 KiB reserve step *)
Example C14_frame_5 : frame_ok [5;0;0;0;2].
Proof. apply frame_okb_spec. reflexivity. Qed.
Example C14_frame_big : frame_ok big_frame /\ lenN big_frame = 65541 /\ MIN_RESERVE_CAPACITY = 65536.
Proof. destruct big_frame_ok. auto. Qed.
(* the unit-test stream of /repo through both interfaces *)
Example C14_nonvacuous :
  Forall frame_ok unit_frames /\
  exists ops, fed this_shape ops = concat unit_frames /\ delivered this_shape ops = unit_frames.
Proof.
  split; [exact unit_frames_ok|]. eexists. pose proof unit_run as H. cbv zeta in H.
  destruct H as [H1 [H2 _]]. split; [exact H1|exact H2].
Qed.
