(* Props/C03.v — C03: the object/service registry.  Statements only; proofs in
   Broker/InvProofs*.v and Props/C03_lemmas.v.  (At most one live object per object UUID and one
   live service per (object, service UUID) holds by construction: [objs] and [svcs] are finite
   maps keyed by exactly these.) *)
From stdpp Require Import gmap list.
From Aldrin Require Import gen.BrokerConsts Broker.Model Broker.Run Broker.Inv Props.C03_lemmas.
Local Open Scope N_scope.

(* cookies identify live objects / services, and the cookie lookups find THE entry *)
Theorem C03_unique_cookies : forall s,
  reachable s ->
  (forall u1 u2 o1 o2, objs s !! u1 = Some o1 -> objs s !! u2 = Some o2 -> o_cookie o1 = o_cookie o2 -> u1 = u2) /\
  (forall k1 k2 s1 s2, svcs s !! k1 = Some s1 -> svcs s !! k2 = Some s2 -> s_cookie s1 = s_cookie s2 -> k1 = k2) /\
  (forall c u o, obj_by_cookie s c = Some (u, o) <-> objs s !! u = Some o /\ o_cookie o = c) /\
  (forall c k sv, svc_by_cookie s c = Some (k, sv) <-> svcs s !! k = Some sv /\ s_cookie sv = c).
Proof. exact reach_unique_cookies. Qed.
Print Assumptions C03_unique_cookies.

(* every service belongs to a live object whose cookie it records; owners are connected *)
Theorem C03_registry : forall s,
  reachable s ->
  (forall ou su sv, svcs s !! (ou, su) = Some sv -> exists o, objs s !! ou = Some o /\ s_obj_cookie sv = o_cookie o) /\
  (forall u o, objs s !! u = Some o -> is_Some (conns s !! o_owner o)).
Proof. exact reach_registry. Qed.
Print Assumptions C03_registry.

(* CreateObject: Duplicate exactly when the uuid is live (nothing changes) ... *)
Theorem C03_create_object_duplicate : forall s c cs serial u f b,
  conns s !! c = Some cs -> cs_alive cs = true -> is_Some (objs s !! u) ->
  step s (Message c (CreateObject serial u)) f b = Done (s, [(c, CreateObjectReply serial CODuplicate, None)]).
Proof. exact create_object_duplicate. Qed.
Print Assumptions C03_create_object_duplicate.

(* ... otherwise Ok with the fresh cookie as the first output, and the object exists afterwards
   with that cookie and owner (and the sender is still connected) *)
Theorem C03_create_object_reply : forall s i c cs serial u s' out,
  reachable s -> legal s i -> i_ev i = Message c (CreateObject serial u) ->
  conns s !! c = Some cs -> cs_alive cs = true -> objs s !! u = None ->
  step s (Message c (CreateObject serial u)) (i_fresh i) (i_bserial i) = Done (s', out) ->
  head out = Some (c, CreateObjectReply serial (COOk (i_fresh i)), None) /\
  objs s' !! u = Some {| o_cookie := i_fresh i; o_owner := c |} /\
  exists cs', conns s' !! c = Some cs' /\ cs_alive cs' = true.
Proof. exact create_object_ok_strong. Qed.
Print Assumptions C03_create_object_reply.

(* CreateService: refused with invalid-object / duplicate / foreign exactly when the bus state
   says so (nothing changes); accepted with the fresh cookie otherwise *)
Theorem C03_create_service_refused : forall s c cs serial oc u ver f b r,
  conns s !! c = Some cs -> cs_alive cs = true ->
  create_service_result s c oc u f = r -> (forall x, r <> CSOk x) ->
  step s (Message c (CreateService serial oc u ver)) f b = Done (s, [(c, CreateServiceReply serial r, None)]).
Proof. exact create_service_refused. Qed.
Print Assumptions C03_create_service_refused.

Theorem C03_create_service_ok : forall s i c cs serial oc u ver s' out,
  reachable s -> legal s i -> i_ev i = Message c (CreateService serial oc u ver) ->
  conns s !! c = Some cs -> cs_alive cs = true ->
  create_service_result s c oc u (i_fresh i) = CSOk (i_fresh i) ->
  step s (Message c (CreateService serial oc u ver)) (i_fresh i) (i_bserial i) = Done (s', out) ->
  head out = Some (c, CreateServiceReply serial (CSOk (i_fresh i)), None).
Proof. exact create_service_ok. Qed.
Print Assumptions C03_create_service_ok.

(* only the owner can destroy an object or a service: a non-owner is answered Foreign and the
   state does not change *)
Theorem C03_owner_only_destroy_object : forall s c cs serial ck u o f b,
  conns s !! c = Some cs -> cs_alive cs = true ->
  obj_by_cookie s ck = Some (u, o) -> o_owner o <> c ->
  step s (Message c (DestroyObject serial ck)) f b = Done (s, [(c, DestroyObjectReply serial R3Foreign, None)]).
Proof. exact destroy_object_foreign. Qed.
Print Assumptions C03_owner_only_destroy_object.

Theorem C03_owner_only_destroy_service : forall s c cs serial ck k sv o f b,
  conns s !! c = Some cs -> cs_alive cs = true ->
  svc_by_cookie s ck = Some (k, sv) -> objs s !! k.1 = Some o -> o_owner o <> c ->
  step s (Message c (DestroyService serial ck)) f b = Done (s, [(c, DestroyServiceReply serial R3Foreign, None)]).
Proof. exact destroy_service_foreign. Qed.
Print Assumptions C03_owner_only_destroy_service.

Theorem C03_destroy_invalid_object : forall s c cs serial ck f b,
  conns s !! c = Some cs -> cs_alive cs = true -> obj_by_cookie s ck = None ->
  step s (Message c (DestroyObject serial ck)) f b = Done (s, [(c, DestroyObjectReply serial R3Invalid, None)]).
Proof. exact destroy_object_invalid. Qed.
Print Assumptions C03_destroy_invalid_object.

Theorem C03_destroy_invalid_service : forall s c cs serial ck f b,
  conns s !! c = Some cs -> cs_alive cs = true -> svc_by_cookie s ck = None ->
  step s (Message c (DestroyService serial ck)) f b = Done (s, [(c, DestroyServiceReply serial R3Invalid, None)]).
Proof. exact destroy_service_invalid. Qed.
Print Assumptions C03_destroy_invalid_service.

(* destroying an object destroys all its services *)
Theorem C03_cascade : forall s i c cs serial ck u o s' out,
  reachable s -> legal s i -> i_ev i = Message c (DestroyObject serial ck) ->
  conns s !! c = Some cs -> cs_alive cs = true ->
  obj_by_cookie s ck = Some (u, o) -> o_owner o = c ->
  step s (Message c (DestroyObject serial ck)) (i_fresh i) (i_bserial i) = Done (s', out) ->
  head out = Some (c, DestroyObjectReply serial R3Ok, None) /\
  objs s' !! u = None /\ (forall su, svcs s' !! (u, su) = None).
Proof. exact destroy_object_ok. Qed.
Print Assumptions C03_cascade.

Theorem C03_destroy_service_ok : forall s i c cs serial ck k sv o s' out,
  reachable s -> legal s i -> i_ev i = Message c (DestroyService serial ck) ->
  conns s !! c = Some cs -> cs_alive cs = true ->
  svc_by_cookie s ck = Some (k, sv) -> objs s !! k.1 = Some o -> o_owner o = c ->
  step s (Message c (DestroyService serial ck)) (i_fresh i) (i_bserial i) = Done (s', out) ->
  head out = Some (c, DestroyServiceReply serial R3Ok, None) /\ svcs s' !! k = None.
Proof. exact destroy_service_ok. Qed.
Print Assumptions C03_destroy_service_ok.

(* a disconnect destroys everything the connection owned *)
Theorem C03_disconnect : forall s c,
  reachable s -> conns s !! c = None ->
  (forall u o, objs s !! u = Some o -> o_owner o <> c) /\
  (forall ou su sv o, svcs s !! (ou, su) = Some sv -> objs s !! ou = Some o -> o_owner o <> c).
Proof. exact reach_disconnected_owns_nothing. Qed.
Print Assumptions C03_disconnect.

Theorem C03_disconnect_step : forall s i c s' out,
  reachable s -> legal s i -> i_ev i = ConnectionShutdown c ->
  step s (ConnectionShutdown c) (i_fresh i) (i_bserial i) = Done (s', out) ->
  conns s' !! c = None /\
  (forall u o, objs s' !! u = Some o -> o_owner o <> c) /\
  (forall ou su sv o, svcs s' !! (ou, su) = Some sv -> objs s' !! ou = Some o -> o_owner o <> c).
Proof. exact disconnect_step. Qed.
Print Assumptions C03_disconnect_step.

(* queries about a service succeed exactly while it is live (C03_unique_cookies says that
   svc_by_cookie finds a service iff one with that cookie is live) *)
Theorem C03_query_version : forall s c cs serial ck f b,
  conns s !! c = Some cs -> cs_alive cs = true ->
  step s (Message c (QueryServiceVersion serial ck)) f b =
  Done (s, [(c, QueryServiceVersionReply serial ((fun p => i_version (s_info p.2)) <$> svc_by_cookie s ck), None)]).
Proof. exact query_service_version. Qed.
Print Assumptions C03_query_version.

Theorem C03_query_info : forall s c cs serial ck f b,
  conns s !! c = Some cs -> cs_alive cs = true -> MIN_QUERY_SERVICE_INFO <= cs_ver cs ->
  step s (Message c (QueryServiceInfo serial ck)) f b =
  Done (s, [(c, QueryServiceInfoReply serial
                  (match svc_by_cookie s ck with Some (_, sv) => QIOk (s_info sv) | None => QIInvalid end), None)]).
Proof. exact query_service_info. Qed.
Print Assumptions C03_query_info.

Theorem C03_subscribe_dead_service : forall s c cs serial ck ev f b,
  conns s !! c = Some cs -> cs_alive cs = true -> svc_by_cookie s ck = None ->
  step s (Message c (SubscribeEvent (Some serial) ck ev)) f b =
  Done (s, [(c, SubscribeEventReply serial false, None)]).
Proof. exact subscribe_invalid_service. Qed.
Print Assumptions C03_subscribe_dead_service.

Theorem C03_call_dead_service : forall s c cs serial ck fn v f b,
  conns s !! c = Some cs -> cs_alive cs = true -> svc_by_cookie s ck = None ->
  step s (Message c (CallFunction serial ck fn v)) f b =
  Done (s, [(c, CallFunctionReply serial CRInvalidService, None)]).
Proof. exact call_invalid_service. Qed.
Print Assumptions C03_call_dead_service.

(* the hypotheses of the reply theorems are satisfiable: after one NewConnection step there is a
   reachable state with a connected, alive connection 1, a legal CreateObject input, and the
   step returns Done *)
Example C03_hypotheses_satisfiable :
  reachable ex_s1 /\ legal ex_s1 ex_i1 /\
  exists cs, conns ex_s1 !! 1 = Some cs /\ cs_alive cs = true /\ objs ex_s1 !! 5 = None /\
        exists s' out, step ex_s1 (i_ev ex_i1) (i_fresh ex_i1) (i_bserial ex_i1) = Done (s', out).
Proof. exact ex_hypotheses. Qed.
