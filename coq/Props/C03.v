(* Props/C03.v — C03: the object/service registry.  Statements only; proofs in
   Broker/InvProofs*.v and Props/C03_lemmas.v.  (At most one live object per object UUID and one
   live service per (object, service UUID) holds by construction: [objs] and [svcs] are finite
   maps keyed by exactly these.) *)
From stdpp Require Import gmap list.
From RecordUpdate Require Import RecordSet.
Import RecordSetNotations.
From Aldrin Require Import gen.BrokerConsts Broker.Model Broker.Run Broker.Inv Props.C03_lemmas.
From Aldrin Require Import Broker.OutKinds Broker.CallProofs Props.C11_lemmas Broker.RegistryProofs.
Local Open Scope N_scope.

(* cookies identify live objects / services, and the cookie lookups find THE entry *)
Theorem C03_unique_cookies : forall s,
  reachable s ->
  (forall u1 u2 o1 o2, objs s !! u1 = Some o1 -> objs s !! u2 = Some o2 -> o_cookie o1 = o_cookie o2 -> u1 = u2) /\
  (forall k1 k2 s1 s2, svcs s !! k1 = Some s1 -> svcs s !! k2 = Some s2 -> s_cookie s1 = s_cookie s2 -> k1 = k2) /\
  (forall c u o, obj_by_cookie s c = Some (u, o) <-> objs s !! u = Some o /\ o_cookie o = c) /\
  (forall c k sv, svc_by_cookie s c = Some (k, sv) <-> svcs s !! k = Some sv /\ s_cookie sv = c).
Proof. exact reach_unique_cookies. Qed.
Print Assumptions C03_unique_cookies.

(* every service belongs to a live object whose cookie it records; owners are connected *)
Theorem C03_registry : forall s,
  reachable s ->
  (forall ou su sv, svcs s !! (ou, su) = Some sv -> exists o, objs s !! ou = Some o /\ s_obj_cookie sv = o_cookie o) /\
  (forall u o, objs s !! u = Some o -> is_Some (conns s !! o_owner o)).
Proof. exact reach_registry. Qed.
Print Assumptions C03_registry.

(* CreateObject: Duplicate exactly when the uuid is live (nothing changes) ... *)
Theorem C03_create_object_duplicate : forall s c cs serial u f b,
  conns s !! c = Some cs -> cs_alive cs = true -> is_Some (objs s !! u) ->
  step s (Message c (CreateObject serial u)) f b = Done (s, [(c, CreateObjectReply serial CODuplicate, None)]).
Proof. exact create_object_duplicate. Qed.
Print Assumptions C03_create_object_duplicate.

(* ... otherwise Ok with the fresh cookie as the first output, and the object exists afterwards
   with that cookie and owner (and the sender is still connected) *)
Theorem C03_create_object_reply : forall s i c cs serial u s' out,
  reachable s -> legal s i -> i_ev i = Message c (CreateObject serial u) ->
  conns s !! c = Some cs -> cs_alive cs = true -> objs s !! u = None ->
  step s (Message c (CreateObject serial u)) (i_fresh i) (i_bserial i) = Done (s', out) ->
  head out = Some (c, CreateObjectReply serial (COOk (i_fresh i)), None) /\
  objs s' !! u = Some {| o_cookie := i_fresh i; o_owner := c |} /\
  exists cs', conns s' !! c = Some cs' /\ cs_alive cs' = true.
Proof. exact create_object_ok_strong. Qed.
Print Assumptions C03_create_object_reply.

(* CreateService: refused with invalid-object / duplicate / foreign exactly when the bus state
   says so (nothing changes); accepted with the fresh cookie otherwise *)
Theorem C03_create_service_refused : forall s c cs serial oc u ver f b r,
  conns s !! c = Some cs -> cs_alive cs = true ->
  create_service_result s c oc u f = r -> (forall x, r <> CSOk x) ->
  step s (Message c (CreateService serial oc u ver)) f b = Done (s, [(c, CreateServiceReply serial r, None)]).
Proof. exact create_service_refused. Qed.
Print Assumptions C03_create_service_refused.

Theorem C03_create_service_ok : forall s i c cs serial oc u ver s' out,
  reachable s -> legal s i -> i_ev i = Message c (CreateService serial oc u ver) ->
  conns s !! c = Some cs -> cs_alive cs = true ->
  create_service_result s c oc u (i_fresh i) = CSOk (i_fresh i) ->
  step s (Message c (CreateService serial oc u ver)) (i_fresh i) (i_bserial i) = Done (s', out) ->
  head out = Some (c, CreateServiceReply serial (CSOk (i_fresh i)), None).
Proof. exact create_service_ok. Qed.
Print Assumptions C03_create_service_ok.

(* only the owner can destroy an object or a service: a non-owner is answered Foreign and the
   state does not change *)
Theorem C03_owner_only_destroy_object : forall s c cs serial ck u o f b,
  conns s !! c = Some cs -> cs_alive cs = true ->
  obj_by_cookie s ck = Some (u, o) -> o_owner o <> c ->
  step s (Message c (DestroyObject serial ck)) f b = Done (s, [(c, DestroyObjectReply serial R3Foreign, None)]).
Proof. exact destroy_object_foreign. Qed.
Print Assumptions C03_owner_only_destroy_object.

Theorem C03_owner_only_destroy_service : forall s c cs serial ck k sv o f b,
  conns s !! c = Some cs -> cs_alive cs = true ->
  svc_by_cookie s ck = Some (k, sv) -> objs s !! k.1 = Some o -> o_owner o <> c ->
  step s (Message c (DestroyService serial ck)) f b = Done (s, [(c, DestroyServiceReply serial R3Foreign, None)]).
Proof. exact destroy_service_foreign. Qed.
Print Assumptions C03_owner_only_destroy_service.

Theorem C03_destroy_invalid_object : forall s c cs serial ck f b,
  conns s !! c = Some cs -> cs_alive cs = true -> obj_by_cookie s ck = None ->
  step s (Message c (DestroyObject serial ck)) f b = Done (s, [(c, DestroyObjectReply serial R3Invalid, None)]).
Proof. exact destroy_object_invalid. Qed.
Print Assumptions C03_destroy_invalid_object.

Theorem C03_destroy_invalid_service : forall s c cs serial ck f b,
  conns s !! c = Some cs -> cs_alive cs = true -> svc_by_cookie s ck = None ->
  step s (Message c (DestroyService serial ck)) f b = Done (s, [(c, DestroyServiceReply serial R3Invalid, None)]).
Proof. exact destroy_service_invalid. Qed.
Print Assumptions C03_destroy_invalid_service.

(* destroying an object destroys all its services *)
Theorem C03_cascade : forall s i c cs serial ck u o s' out,
  reachable s -> legal s i -> i_ev i = Message c (DestroyObject serial ck) ->
  conns s !! c = Some cs -> cs_alive cs = true ->
  obj_by_cookie s ck = Some (u, o) -> o_owner o = c ->
  step s (Message c (DestroyObject serial ck)) (i_fresh i) (i_bserial i) = Done (s', out) ->
  head out = Some (c, DestroyObjectReply serial R3Ok, None) /\
  objs s' !! u = None /\ (forall su, svcs s' !! (u, su) = None).
Proof. exact destroy_object_ok. Qed.
Print Assumptions C03_cascade.

Theorem C03_destroy_service_ok : forall s i c cs serial ck k sv o s' out,
  reachable s -> legal s i -> i_ev i = Message c (DestroyService serial ck) ->
  conns s !! c = Some cs -> cs_alive cs = true ->
  svc_by_cookie s ck = Some (k, sv) -> objs s !! k.1 = Some o -> o_owner o = c ->
  step s (Message c (DestroyService serial ck)) (i_fresh i) (i_bserial i) = Done (s', out) ->
  head out = Some (c, DestroyServiceReply serial R3Ok, None) /\ svcs s' !! k = None.
Proof. exact destroy_service_ok. Qed.
Print Assumptions C03_destroy_service_ok.

(* a disconnect destroys everything the connection owned *)
Theorem C03_disconnect : forall s c,
  reachable s -> conns s !! c = None ->
  (forall u o, objs s !! u = Some o -> o_owner o <> c) /\
  (forall ou su sv o, svcs s !! (ou, su) = Some sv -> objs s !! ou = Some o -> o_owner o <> c).
Proof. exact reach_disconnected_owns_nothing. Qed.
Print Assumptions C03_disconnect.

Theorem C03_disconnect_step : forall s i c s' out,
  reachable s -> legal s i -> i_ev i = ConnectionShutdown c ->
  step s (ConnectionShutdown c) (i_fresh i) (i_bserial i) = Done (s', out) ->
  conns s' !! c = None /\
  (forall u o, objs s' !! u = Some o -> o_owner o <> c) /\
  (forall ou su sv o, svcs s' !! (ou, su) = Some sv -> objs s' !! ou = Some o -> o_owner o <> c).
Proof. exact disconnect_step. Qed.
Print Assumptions C03_disconnect_step.

(* queries about a service succeed exactly while it is live (C03_unique_cookies says that
   svc_by_cookie finds a service iff one with that cookie is live) *)
Theorem C03_query_version : forall s c cs serial ck f b,
  conns s !! c = Some cs -> cs_alive cs = true ->
  step s (Message c (QueryServiceVersion serial ck)) f b =
  Done (s, [(c, QueryServiceVersionReply serial ((fun p => i_version (s_info p.2)) <$> svc_by_cookie s ck), None)]).
Proof. exact query_service_version. Qed.
Print Assumptions C03_query_version.

Theorem C03_query_info : forall s c cs serial ck f b,
  conns s !! c = Some cs -> cs_alive cs = true -> MIN_QUERY_SERVICE_INFO <= cs_ver cs ->
  step s (Message c (QueryServiceInfo serial ck)) f b =
  Done (s, [(c, QueryServiceInfoReply serial
                  (match svc_by_cookie s ck with Some (_, sv) => QIOk (s_info sv) | None => QIInvalid end), None)]).
Proof. exact query_service_info. Qed.
Print Assumptions C03_query_info.

Theorem C03_subscribe_dead_service : forall s c cs serial ck ev f b,
  conns s !! c = Some cs -> cs_alive cs = true -> svc_by_cookie s ck = None ->
  step s (Message c (SubscribeEvent (Some serial) ck ev)) f b =
  Done (s, [(c, SubscribeEventReply serial false, None)]).
Proof. exact subscribe_invalid_service. Qed.
Print Assumptions C03_subscribe_dead_service.

Theorem C03_call_dead_service : forall s c cs serial ck fn v f b,
  conns s !! c = Some cs -> cs_alive cs = true -> svc_by_cookie s ck = None ->
  step s (Message c (CallFunction serial ck fn v)) f b =
  Done (s, [(c, CallFunctionReply serial CRInvalidService, None)]).
Proof. exact call_invalid_service. Qed.
Print Assumptions C03_call_dead_service.

(* the hypotheses of the reply theorems are satisfiable: after one NewConnection step there is a
   reachable state with a connected, alive connection 1, a legal CreateObject input, and the
   step returns Done *)
Example C03_hypotheses_satisfiable :
  reachable ex_s1 /\ legal ex_s1 ex_i1 /\
  exists cs, conns ex_s1 !! 1 = Some cs /\ cs_alive cs = true /\ objs ex_s1 !! 5 = None /\
        exists s' out, step ex_s1 (i_ev ex_i1) (i_fresh ex_i1) (i_bserial ex_i1) = Done (s', out).
Proof. exact ex_hypotheses. Qed.

(* ================================================================ additions: what DESIGN.md listed as
   "not stated" for C03.  Vocabulary (Broker/RegistryProofs.v):
   [is_create_service cs x serial oc u i]: x is CreateService, or CreateService2 with a service info
   from a connection of protocol version >= 17, and i is the info the broker records (version only
   for CreateService; subscribe_all cleared when the creator is older than version 18).
   [new_svc fresh oc i]: the service record with cookie fresh, object cookie oc, info i, no event /
   all-events / service subscribers and no pending calls.
   [bus_targets s ev]: the owners of the started bus listeners whose scope includes new events and
   one of whose filters matches ev; [bus_outs s ev]: the EmitBusEvent outputs to the connected ones;
   [bus_quiet s ev]: every connected target still has its receiver. *)

(* (1) an accepted CreateService / CreateService2: the service IS stored — under (object uuid,
   service uuid), with the fresh cookie, the object cookie, the given info, empty subscriber sets
   and no calls; its object is still there, the creator still connected; no other entry of the
   registry appears or changes its key set otherwise than by removals *)
Theorem C03_create_service_stored : forall s i c cs x serial oc u inf ou o s' out,
  reachable s -> legal s i -> i_ev i = Message c x ->
  conns s !! c = Some cs -> cs_alive cs = true -> is_create_service cs x serial oc u inf ->
  obj_by_cookie s oc = Some (ou, o) -> o_owner o = c -> svcs s !! (ou, u) = None ->
  step s (Message c x) (i_fresh i) (i_bserial i) = Done (s', out) ->
  head out = Some (c, CreateServiceReply serial (CSOk (i_fresh i)), None) /\
  svcs s' !! (ou, u) = Some (new_svc (i_fresh i) oc inf) /\
  objs s' !! ou = Some o /\
  (exists cs', conns s' !! c = Some cs' /\ cs_alive cs' = true) /\
  objs s' ⊆ objs s /\
  (forall k, is_Some (svcs s' !! k) -> k = (ou, u) \/ is_Some (svcs s !! k)).
Proof. exact create_service_stored. Qed.
Print Assumptions C03_create_service_stored.

(* ... and when no bus listener that has to be told has lost its receiver, the step is exactly:
   reply, insertion, gauge, bus events — every other entry of objs and svcs is unchanged *)
Theorem C03_create_service_exact : forall s c cs x serial oc u i ou o f b,
  conns s !! c = Some cs -> cs_alive cs = true -> is_create_service cs x serial oc u i ->
  obj_by_cookie s oc = Some (ou, o) -> o_owner o = c -> svcs s !! (ou, u) = None ->
  bus_quiet s (EvServiceCreated ou oc u f) ->
  step s (Message c x) f b =
    Done (s <| svcs ::= <[(ou, u) := new_svc f oc i]> |> <| st; n_svcs ::= N.succ |>,
          (c, CreateServiceReply serial (CSOk f), None) :: bus_outs s (EvServiceCreated ou oc u f)).
Proof. exact create_service_exact. Qed.
Print Assumptions C03_create_service_exact.

(* (3) CreateObject, the same two forms *)
Theorem C03_object_stored : forall s i c cs serial u s' out,
  reachable s -> legal s i -> i_ev i = Message c (CreateObject serial u) ->
  conns s !! c = Some cs -> cs_alive cs = true -> objs s !! u = None ->
  step s (Message c (CreateObject serial u)) (i_fresh i) (i_bserial i) = Done (s', out) ->
  head out = Some (c, CreateObjectReply serial (COOk (i_fresh i)), None) /\
  objs s' !! u = Some {| o_cookie := i_fresh i; o_owner := c |} /\
  (exists cs', conns s' !! c = Some cs' /\ cs_alive cs' = true) /\
  (forall u', u' <> u -> forall o', objs s' !! u' = Some o' -> objs s !! u' = Some o') /\
  (forall k, is_Some (svcs s' !! k) -> is_Some (svcs s !! k)).
Proof. exact create_object_stored. Qed.
Print Assumptions C03_object_stored.

Theorem C03_create_object_exact : forall s c cs serial u f b,
  conns s !! c = Some cs -> cs_alive cs = true -> objs s !! u = None ->
  bus_quiet s (EvObjectCreated u f) ->
  step s (Message c (CreateObject serial u)) f b =
    Done (s <| objs ::= <[u := {| o_cookie := f; o_owner := c |}]> |> <| st; n_objs ::= N.succ |>,
          (c, CreateObjectReply serial (COOk f), None) :: bus_outs s (EvObjectCreated u f)).
Proof. exact create_object_exact. Qed.
Print Assumptions C03_create_object_exact.

(* an object stays live — same cookie, same owner — as long as its owner stays connected and does
   not send DestroyObject for its cookie: one step, and any legal history *)
Theorem C03_object_persists : forall s i u o s' out,
  reachable s -> legal s i -> objs s !! u = Some o ->
  (forall serial, i_ev i <> Message (o_owner o) (DestroyObject serial (o_cookie o))) ->
  step s (i_ev i) (i_fresh i) (i_bserial i) = Done (s', out) ->
  is_Some (conns s' !! o_owner o) ->
  objs s' !! u = Some o.
Proof. exact object_persists. Qed.
Print Assumptions C03_object_persists.

Theorem C03_object_persists_run : forall h s s' os u o,
  reachable s -> legal_run s h -> run s h = Done (s', os) -> objs s !! u = Some o ->
  Forall (fun i => forall serial, i_ev i <> Message (o_owner o) (DestroyObject serial (o_cookie o))) h ->
  alive_along (o_owner o) s h ->
  objs s' !! u = Some o /\ reachable s'.
Proof. exact object_persists_run. Qed.
Print Assumptions C03_object_persists_run.

(* "at most one live object per uuid" on the observable level ([objs] is a finite map keyed by the
   object uuid, [svcs] by (object uuid, service uuid), so in the state it holds by construction):
   after an accepted CreateObject for u, over any legal history in which the creator stays connected
   with a working receiver and does not send DestroyObject for the new cookie, a CreateObject for
   the same uuid from any connected connection is answered Duplicate and changes nothing *)
Theorem C03_uniqueness_by_construction : forall h s i1 c1 cs1 serial1 u s1 o1 s2 os c2 cs2 serial2 f b,
  reachable s -> legal s i1 -> i_ev i1 = Message c1 (CreateObject serial1 u) ->
  conns s !! c1 = Some cs1 -> cs_alive cs1 = true -> objs s !! u = None ->
  step s (i_ev i1) (i_fresh i1) (i_bserial i1) = Done (s1, o1) ->
  legal_run s1 h -> run s1 h = Done (s2, os) ->
  Forall (fun i => forall serial, i_ev i <> Message c1 (DestroyObject serial (i_fresh i1))) h ->
  alive_along c1 s1 h ->
  conns s2 !! c2 = Some cs2 -> cs_alive cs2 = true ->
  head o1 = Some (c1, CreateObjectReply serial1 (COOk (i_fresh i1)), None) /\
  step s2 (Message c2 (CreateObject serial2 u)) f b =
    Done (s2, [(c2, CreateObjectReply serial2 CODuplicate, None)]).
Proof. exact second_create_duplicate. Qed.
Print Assumptions C03_uniqueness_by_construction.

(* (2) queries about a live service succeed: exact steps *)
Theorem C03_query_version_live : forall s c cs serial sc k sv f b,
  conns s !! c = Some cs -> cs_alive cs = true -> svc_by_cookie s sc = Some (k, sv) ->
  step s (Message c (QueryServiceVersion serial sc)) f b =
    Done (s, [(c, QueryServiceVersionReply serial (Some (i_version (s_info sv))), None)]).
Proof. exact query_version_live. Qed.
Print Assumptions C03_query_version_live.

Theorem C03_query_info_live : forall s c cs serial sc k sv f b,
  conns s !! c = Some cs -> cs_alive cs = true -> 17 <= cs_ver cs -> svc_by_cookie s sc = Some (k, sv) ->
  step s (Message c (QueryServiceInfo serial sc)) f b =
    Done (s, [(c, QueryServiceInfoReply serial (QIOk (s_info sv)), None)]).
Proof. exact query_info_live. Qed.
Print Assumptions C03_query_info_live.

Theorem C03_subscribe_service_live : forall s c cs serial sc k sv f b,
  conns s !! c = Some cs -> cs_alive cs = true -> 18 <= cs_ver cs -> svc_by_cookie s sc = Some (k, sv) ->
  step s (Message c (SubscribeService serial sc)) f b =
    Done (s <| svcs ::= <[k := sv <| s_subs ::= fun x => {[c]} ∪ x |>]> |>,
          [(c, SubscribeServiceReply serial true, None)]).
Proof. exact subscribe_service_live. Qed.
Print Assumptions C03_subscribe_service_live.

Theorem C03_subscribe_service_dead : forall s c cs serial sc f b,
  conns s !! c = Some cs -> cs_alive cs = true -> 18 <= cs_ver cs -> svc_by_cookie s sc = None ->
  step s (Message c (SubscribeService serial sc)) f b =
    Done (s, [(c, SubscribeServiceReply serial false, None)]).
Proof. exact subscribe_service_dead. Qed.
Print Assumptions C03_subscribe_service_dead.

(* SubscribeEvent: Ok, subscriber recorded; the owner is told about the first subscriber of that
   event if its receiver is there ([subscribe_notice]) *)
Theorem C03_subscribe_event_live : forall s c cs serial sc ev k sv owner f b,
  conns s !! c = Some cs -> cs_alive cs = true ->
  svc_by_cookie s sc = Some (k, sv) -> owner_of_svc s k = Some owner ->
  step s (Message c (SubscribeEvent (Some serial) sc ev)) f b =
    Done (s <| svcs ::= <[k := sv <| s_events ::= <[ev := default ∅ (s_events sv !! ev) ∪ {[c]}]> |>]> |>,
          (c, SubscribeEventReply serial true, None) ::
          (if negb (bool_decide (is_Some (s_events sv !! ev))) && alive s owner
           then [(owner, SubscribeEvent None sc ev, None)] else [])).
Proof. exact subscribe_event_live. Qed.
Print Assumptions C03_subscribe_event_live.

(* CallFunction to a live service whose owner's receiver is there: stored and forwarded
   (C02_call_forwarded; for an owner whose receiver is gone see C02_call_dead_callee) *)
Theorem C03_call_live : forall s c cs serial sc fn v f bs k sv callee ccs b nxt,
  conns s !! c = Some cs -> svc_by_cookie s sc = Some (k, sv) -> owner_of_svc s k = Some callee ->
  conns s !! callee = Some ccs -> cs_alive ccs = true ->
  pick_serial s bs = Some (b, nxt) -> cs_calls cs !! serial = None ->
  step s (Message c (CallFunction serial sc fn v)) f bs =
    Done (call_state s c cs serial k sv b nxt callee,
          [(callee, if 19 <=? cs_ver ccs then CallFunction2 b sc fn None v else CallFunction b sc fn v,
            Some (cs_ver cs))]).
Proof. exact call_live. Qed.
Print Assumptions C03_call_live.

(* the iff: answered positively exactly while the cookie names a live service *)
Theorem C03_query_iff_live : forall s c cs serial sc f b,
  conns s !! c = Some cs -> cs_alive cs = true ->
  (exists r, step s (Message c (QueryServiceVersion serial sc)) f b =
               Done (s, [(c, QueryServiceVersionReply serial r, None)]) /\
             (is_Some r <-> svc_by_cookie s sc <> None)) /\
  (17 <= cs_ver cs ->
   exists r, step s (Message c (QueryServiceInfo serial sc)) f b =
               Done (s, [(c, QueryServiceInfoReply serial r, None)]) /\
             (r <> QIInvalid <-> svc_by_cookie s sc <> None)) /\
  (18 <= cs_ver cs ->
   exists s' ok, step s (Message c (SubscribeService serial sc)) f b =
               Done (s', [(c, SubscribeServiceReply serial ok, None)]) /\
             (ok = true <-> svc_by_cookie s sc <> None)).
Proof. exact query_iff_live. Qed.
Print Assumptions C03_query_iff_live.

Theorem C03_subscribe_event_iff_live : forall s c cs serial sc ev f b,
  reachable s -> conns s !! c = Some cs -> cs_alive cs = true ->
  exists s' ok rest, step s (Message c (SubscribeEvent (Some serial) sc ev)) f b =
                       Done (s', (c, SubscribeEventReply serial ok, None) :: rest) /\
                     (ok = true <-> svc_by_cookie s sc <> None).
Proof. exact subscribe_event_iff_live. Qed.
Print Assumptions C03_subscribe_event_iff_live.

(* a call with a caller serial that is not pending, every service owner's receiver in place:
   InvalidService is output to the caller iff the cookie names no live service; for a live service
   nothing at all is output to the caller in this step (unless it calls a service it owns itself) *)
Theorem C03_call_iff_live : forall s i c cs serial sc fn v s' o,
  reachable s -> legal s i -> i_ev i = Message c (CallFunction serial sc fn v) ->
  conns s !! c = Some cs -> cs_alive cs = true -> cs_calls cs !! serial = None ->
  (forall k sv callee ccs, svc_by_cookie s sc = Some (k, sv) -> owner_of_svc s k = Some callee ->
                           conns s !! callee = Some ccs -> cs_alive ccs = true) ->
  step s (Message c (CallFunction serial sc fn v)) (i_fresh i) (i_bserial i) = Done (s', o) ->
  ((c, CallFunctionReply serial CRInvalidService, None) ∈ o <-> svc_by_cookie s sc = None) /\
  (svc_by_cookie s sc <> None -> outs_to c o = [] \/ exists k, owner_of_svc s k = Some c).
Proof. exact call_iff_live. Qed.
Print Assumptions C03_call_iff_live.

(* (4) a disconnect — reported by the connection task (ConnectionShutdown) or requested through
   the broker handle (ShutdownConnection) — destroys exactly what the connection owned: its
   objects with all their services are gone, nothing of it is left, objects of other connections
   that are still connected are untouched *)
Theorem C03_disconnect_destroys : forall s i c s' out,
  reachable s -> legal s i -> i_ev i = ConnectionShutdown c \/ i_ev i = ShutdownConnection c ->
  step s (i_ev i) (i_fresh i) (i_bserial i) = Done (s', out) ->
  conns s' !! c = None /\
  (forall u o, objs s !! u = Some o -> o_owner o = c -> objs s' !! u = None /\ forall su, svcs s' !! (u, su) = None) /\
  (forall u o, objs s' !! u = Some o -> objs s !! u = Some o /\ o_owner o <> c) /\
  (forall u o, objs s !! u = Some o -> o_owner o <> c -> is_Some (conns s' !! o_owner o) -> objs s' !! u = Some o) /\
  (forall ou su sv, svcs s' !! (ou, su) = Some sv -> exists o, objs s' !! ou = Some o /\ o_owner o <> c).
Proof. exact disconnect_destroys. Qed.
Print Assumptions C03_disconnect_destroys.

(* the history-level form: after any legal history from the initial state, followed by c's
   disconnect, nothing in the registry belongs to c *)
Theorem C03_disconnect_run : forall h s1 os1 i c s' out,
  legal_run init h -> run init h = Done (s1, os1) -> legal s1 i -> i_ev i = ConnectionShutdown c ->
  step s1 (i_ev i) (i_fresh i) (i_bserial i) = Done (s', out) ->
  conns s' !! c = None /\
  (forall u o, objs s' !! u = Some o -> o_owner o <> c) /\
  (forall ou su sv, svcs s' !! (ou, su) = Some sv -> exists o, objs s' !! ou = Some o /\ o_owner o <> c).
Proof. exact disconnect_run. Qed.
Print Assumptions C03_disconnect_run.

(* the hypotheses of C03_create_service_stored / C03_create_service_exact are satisfiable: connection 1
   (version 20) owns object 5 (cookie 8) and sends CreateService2 for service uuid 6, fresh cookie 9 *)
Example C03_create_service_sat :
  let s := rstate rh_obj in
  reachable s /\ legal s rex_i /\
  conns s !! 1 = Some {| cs_ver := 20; cs_alive := true; cs_calls := ∅ |} /\
  is_create_service {| cs_ver := 20; cs_alive := true; cs_calls := ∅ |} (CreateService2 1 8 6 (Some rex_info)) 1 8 6 rex_info /\
  obj_by_cookie s 8 = Some (5, {| o_cookie := 8; o_owner := 1 |}) /\ svcs s !! (5, 6) = None /\
  bus_quiet s (EvServiceCreated 5 8 6 9) /\
  exists s' out, step s (i_ev rex_i) (i_fresh rex_i) (i_bserial rex_i) = Done (s', out).
Proof. exact create_service_sat. Qed.

(* without bus_quiet "every other entry is unchanged" is false: connection 1 owns object 100 and a
   started bus listener for all objects and has dropped its receiver; connection 2's CreateObject
   200 cannot be announced to 1, so 1 is removed and object 100 destroyed within the same step *)
Example C03_create_cascade_run :
  let s := rstate rh_cascade in
  objs s !! 100 = Some {| o_cookie := 1000; o_owner := 1 |} /\
  exists s', step s (Message 2 (CreateObject 5 200)) 2000 None =
               Done (s', [(2, CreateObjectReply 5 (COOk 2000), None)]) /\
             objs s' !! 100 = None /\ conns s' !! 1 = None /\
             objs s' !! 200 = Some {| o_cookie := 2000; o_owner := 2 |}.
Proof. exact create_cascade_run. Qed.
