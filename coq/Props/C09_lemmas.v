(* Props/C09_lemmas.v — glue between the proofs in Broker/StatsProofs.v, Broker/CleanupProofs.v
   and the statements of Props/C09.v, and the concrete states used by its Examples. *)
From stdpp Require Import gmap list.
From RecordUpdate Require Import RecordSet.
Import RecordSetNotations.
From Aldrin Require Import gen.BrokerConsts Broker.Model Broker.Run Broker.Wp Broker.Cascade
  Broker.StatsProofs Broker.CleanupProofs.
Local Open Scope N_scope.

Lemma conn_gone_ev s c e f b s' o :
  e = ConnectionShutdown c \/ e = ShutdownConnection c ->
  step s e f b = Done (s', o) -> conns s' !! c = None.
Proof. intros [-> | ->]; [apply (conn_gone s c false)|apply (conn_gone s c true)]. Qed.

Lemma release_unique_ev s c cs e f b s' o :
  obj_unique s -> conns s !! c = Some cs ->
  e = ConnectionShutdown c \/ e = ShutdownConnection c ->
  step s e f b = Done (s', o) -> no_ref c s'.
Proof. intros Hu E [-> | ->]; [apply (release s c cs false)|apply (release s c cs true)]; assumption. Qed.

Lemma release_ev s c cs e f b s' o :
  reachable s -> conns s !! c = Some cs ->
  e = ConnectionShutdown c \/ e = ShutdownConnection c ->
  step s e f b = Done (s', o) -> no_ref c s'.
Proof. intros Hr. apply release_unique_ev. by apply obj_unique_reachable. Qed.

(* a state that is NOT reachable: two objects share the cookie 7.  Removing connection 2 looks
   its object up by cookie, finds the other one, and leaves an object owned by 2 behind. *)
Definition cs_live : cstate := {| cs_ver := 20; cs_alive := true; cs_calls := ∅ |}.
Definition dup_cookie_state : state :=
  {| conns := <[1 := cs_live]> (<[2 := cs_live]> ∅);
     objs := <[1 := {| o_cookie := 7; o_owner := 1 |}]> (<[2 := {| o_cookie := 7; o_owner := 2 |}]> ∅);
     svcs := ∅; calls := ∅; next := 0; chans := ∅; listeners := ∅;
     st := {| n_conns := 2; n_objs := 2; n_svcs := 0; n_chans := 0; n_lis := 0 |};
     shutdown_now := false; shutdown_idle := false |}.

Lemma release_without_unique_cookies_fails :
  exists s c cs s' o, conns s !! c = Some cs /\
    step s (ConnectionShutdown c) 0 None = Done (s', o) /\ ~ no_ref c s'.
Proof.
  exists dup_cookie_state, 2, cs_live.
  destruct (step dup_cookie_state (ConnectionShutdown 2) 0 None) as [[s' o]| |] eqn:E;
    [|vm_compute in E; discriminate..].
  exists s', o. split; [reflexivity|]. split; [reflexivity|].
  intros (Ho & _). apply (Ho 2 {| o_cookie := 7; o_owner := 2 |}); [|reflexivity].
  vm_compute in E. injection E as <- _. reflexivity.
Qed.

(* a short legal history, for the Examples: connection 1 (protocol 20) creates an object and a
   bus listener, connection 2 creates a channel *)
Definition mk (e : event) (fresh : uuid) : input := {| i_ev := e; i_fresh := fresh; i_bserial := None |}.
Definition ex_history : list input :=
  [mk (NewConnection 1 20) 0; mk (NewConnection 2 20) 0;
   mk (Message 1 (CreateObject 7 100)) 1000;
   mk (Message 1 (CreateBusListener 8)) 1001;
   mk (Message 2 (CreateChannel 9 CSender)) 1002].
Fixpoint final (s : state) (h : list input) : state :=
  match h with
  | [] => s
  | i :: rest =>
      match step s (i_ev i) (i_fresh i) (i_bserial i) with
      | Done (s', _) => final s' rest
      | _ => s
      end
  end.
Definition ex_state : state := final init ex_history.

Lemma legal_dec_ok s i :
  bool_decide (i_fresh i ∉ cookies_in_use s) = true ->
  match i_ev i with NewConnection c _ => conns s !! c = None | _ => True end ->
  (N.of_nat (size (calls s)) <? 4294967296) && bool_decide (i_bserial i = None) = true ->
  match i_ev i with
  | Message _ (CreateChannel _ (CReceiver cap)) | Message _ (ClaimChannelEnd _ _ (CReceiver cap))
  | Message _ (AddChannelCapacity _ cap) => cap <= u32_max
  | _ => True
  end -> legal s i.
Proof.
  intros H1 H2 H3 H4. unfold legal. apply andb_true_iff in H3 as [H3 H5].
  apply bool_decide_eq_true in H5. rewrite H5. apply bool_decide_eq_true in H1. apply N.ltb_lt in H3. auto.
Qed.

Fixpoint reach_list (s : state) (h : list input) : Prop :=
  match h with
  | [] => True
  | i :: rest =>
      legal s i /\
      match step s (i_ev i) (i_fresh i) (i_bserial i) with
      | Done (s', _) => reach_list s' rest
      | _ => False
      end
  end.

Lemma reach_list_reachable s h : reachable s -> reach_list s h -> reachable (final s h).
Proof.
  revert s. induction h as [|i rest IH]; intros s Hr Hl; cbn; [exact Hr|].
  destruct Hl as [Hleg Hl].
  destruct (step s (i_ev i) (i_fresh i) (i_bserial i)) as [[s1 o1]| |] eqn:E; try contradiction.
  exact (IH s1 (reach_step _ _ _ _ Hr Hleg E) Hl).
Qed.

Lemma ex_state_reachable : reachable ex_state.
Proof.
  apply reach_list_reachable; [apply reach_init|].
  unfold ex_history.
  repeat (cbn [reach_list]; split;
    [apply legal_dec_ok; [vm_compute; reflexivity|vm_compute; try reflexivity; exact I|vm_compute; reflexivity|exact I]|];
    match goal with |- match ?x with _ => _ end =>
      let r := eval vm_compute in x in
      change x with r; cbv beta iota end).
  exact I.
Qed.

Lemma ex_state_conn1 : conns ex_state !! 1 = Some cs_live.
Proof. vm_compute. reflexivity. Qed.
Lemma ex_state_sizes :
  (size (conns ex_state), size (objs ex_state), size (chans ex_state), size (listeners ex_state))
  = (2, 1, 1, 1)%nat.
Proof. vm_compute. reflexivity. Qed.
