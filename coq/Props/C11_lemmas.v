(* Props/C11_lemmas.v — consequences of the broker invariant used by Props/C11.v: histories,
   no residue without connections, and the readable form of the pending-call clauses. *)
From stdpp Require Import gmap list.
From RecordUpdate Require Import RecordSet.
From Aldrin Require Import gen.BrokerConsts Broker.Model Broker.Run Broker.ChannelProofs Broker.Inv
  Broker.InvProofsBase Broker.InvProofsSettle Broker.InvProofsHandle3 Broker.InvProofsStep
  Broker.InvProofsTerm.
From Coq Require Import Lia.
Local Open Scope N_scope.

(* every input of the history is legal in the state it is applied to *)
Fixpoint legal_run (s : state) (h : list input) : Prop :=
  match h with
  | [] => True
  | i :: rest => legal s i ∧
      ∀ s' o, step s (i_ev i) (i_fresh i) (i_bserial i) = Done (s', o) → legal_run s' rest
  end.

Lemma run_spec h : ∀ s, Inv s → legal_run s h →
  match run s h with
  | Done (s', _) => Inv s'
  | Fail _ => False
  | Panic site => site = 0
  end.
Proof.
  induction h as [|i h IH]; intros s H Hl; cbn; [done|]. destruct Hl as [Hl Hrest].
  destruct (legal_split _ _ Hl) as (L1 & L2 & L3).
  pose proof (step_spec s (i_ev i) (i_fresh i) (i_bserial i) H L1 L2 L3) as Hst.
  destruct (step s (i_ev i) (i_fresh i) (i_bserial i)) as [[s' o]|[s' o]|site]; [|done..].
  specialize (IH s' Hst (Hrest _ _ eq_refl)).
  destruct (run s' h) as [[s'' os]|[s'' os]|site]; done.
Qed.

Lemma run_no_panic h site : legal_run init h → site ≠ 0 → run init h ≠ Panic site.
Proof.
  intros Hl Hne Hr. pose proof (run_spec h init inv_init Hl) as Hs. rewrite Hr in Hs. done.
Qed.

Lemma run_reachable h : ∀ s s' os, reachable s → legal_run s h → run s h = Done (s', os) → reachable s'.
Proof.
  induction h as [|i h IH]; intros s s' os Hr Hl; cbn.
  - intros [= <- _]. done.
  - destruct Hl as [Hl Hrest].
    destruct (step s (i_ev i) (i_fresh i) (i_bserial i)) as [[s1 o]|[s1 o]|site] eqn:Es; [| |done].
    + intros Hrun. destruct (run s1 h) as [[s2 os2]|[s2 os2]|site] eqn:Er; [| |done].
      * inversion Hrun; subst. eapply IH; [|eapply Hrest; eauto|exact Er]. eapply reach_step; eauto.
      * exfalso. pose proof (run_spec h s1) as Hs. rewrite Er in Hs. apply Hs.
        -- eapply inv_step; eauto. by apply reachable_inv.
        -- eapply Hrest; eauto.
    + exfalso. eapply (inv_no_fail s i (s1, o)); eauto. by apply reachable_inv.
Qed.

(* without connections nothing is left *)
Lemma inv_no_residue s :
  Inv s → conns s = ∅ →
  objs s = ∅ ∧ svcs s = ∅ ∧ calls s = ∅ ∧ chans s = ∅ ∧ listeners s = ∅.
Proof.
  intros H Hc. unfold Inv, InvW, InvX in H. rewrite Hc, dom_empty_L in H.
  assert (objs s = ∅) as Ho.
  { apply map_empty. intros u. destruct (objs s !! u) as [o|] eqn:E; [|done].
    pose proof (iv_oo _ _ _ _ _ H _ _ E) as Hin. set_solver. }
  assert (svcs s = ∅) as Hs.
  { apply map_empty. intros k. destruct (svcs s !! k) as [sv|] eqn:E; [|done].
    destruct (iv_reg _ _ _ _ _ H _ _ E) as (o & Hu & _). rewrite Ho, lookup_empty in Hu. done. }
  split; [done|]. split; [done|]. split; [|split].
  - apply map_empty. intros b. destruct (calls s !! b) as [cl|] eqn:E; [|done].
    destruct (iv_cs _ _ _ _ _ H _ _ E) as (sv & Hk & _). rewrite Hs, lookup_empty in Hk. done.
  - apply map_empty. intros k. destruct (chans s !! k) as [ch|] eqn:E; [|done].
    pose proof (iv_ch _ _ _ _ _ H _ _ E) as Hok. destruct (iv_oc _ _ _ _ _ H _ _ E) as [H1 H2].
    unfold chan_ok in Hok. destruct (ch_s ch), (ch_r ch); cbn in *; try done; set_solver.
  - apply map_empty. intros k. destruct (listeners s !! k) as [l|] eqn:E; [|done].
    pose proof (iv_ol _ _ _ _ _ H _ _ E) as Hin. set_solver.
Qed.

(* the pending map of a connected client is exactly its live, non-aborted calls *)
Lemma inv_pending_iff s c cs serial b :
  Inv s → conns s !! c = Some cs →
  (∃ callee, cs_calls cs !! serial = Some (b, callee)) ↔
  (∃ cl, calls s !! b = Some cl ∧ c_caller cl = c ∧ c_serial cl = serial ∧ c_aborted cl = false).
Proof.
  intros H Hc. split.
  - intros (callee & He). destruct (iv_ec _ _ _ _ _ H _ _ _ _ _ Hc He) as [?|[_ [r Hr]]]; [done|].
    by apply elem_of_nil in Hr.
  - intros (cl & Hb & <- & <- & Ha). eapply (iv_ce _ _ _ _ _ H); eauto.
Qed.

(* a live non-aborted call has a connected caller *)
Lemma inv_caller_connected s b cl :
  Inv s → calls s !! b = Some cl → c_aborted cl = false → is_Some (conns s !! c_caller cl).
Proof.
  intros H Hb Ha. destruct (iv_cl _ _ _ _ _ H _ _ Hb Ha) as [Hin|[ce Hin]]; [by apply elem_of_dom|].
  by apply elem_of_nil in Hin.
Qed.

(* ---------------------------------------------------------------- reachable-state forms *)
Lemma reach_no_panic s i site :
  reachable s → legal s i → site ≠ 0 → step s (i_ev i) (i_fresh i) (i_bserial i) ≠ Panic site.
Proof. intros Hr. apply inv_no_panic. by apply reachable_inv. Qed.

Lemma reach_no_fail s i x :
  reachable s → legal s i → step s (i_ev i) (i_fresh i) (i_bserial i) ≠ Fail x.
Proof. intros Hr. apply inv_no_fail. by apply reachable_inv. Qed.

Lemma run_inv h s os : legal_run init h → run init h = Done (s, os) → Inv s.
Proof.
  intros Hl Hr. pose proof (run_spec h init inv_init Hl) as Hs. rewrite Hr in Hs. exact Hs.
Qed.

Lemma reach_no_residue s :
  reachable s → conns s = ∅ →
  objs s = ∅ ∧ svcs s = ∅ ∧ calls s = ∅ ∧ chans s = ∅ ∧ listeners s = ∅.
Proof. intros Hr. apply inv_no_residue. by apply reachable_inv. Qed.

Lemma reach_pending_iff s c cs serial b :
  reachable s → conns s !! c = Some cs →
  (∃ callee, cs_calls cs !! serial = Some (b, callee)) ↔
  (∃ cl, calls s !! b = Some cl ∧ c_caller cl = c ∧ c_serial cl = serial ∧ c_aborted cl = false).
Proof. intros Hr. apply inv_pending_iff. by apply reachable_inv. Qed.

Lemma legal_example :
  legal init {| i_ev := NewConnection 1 20; i_fresh := 7; i_bserial := None |}.
Proof. repeat split; try done. Qed.

(* ---------------------------------------------------------------- termination *)
Lemma reach_terminates s i :
  reachable s → legal s i →
  ∃ n s' o, Inv s' ∧
    ∀ F : M → nat, (∀ m, n ≤ F m)%nat →
      step_fuel F s (i_ev i) (i_fresh i) (i_bserial i) = Done (s', o).
Proof.
  intros Hr Hl. destruct (legal_split _ _ Hl) as (L1 & L2 & L3).
  apply step_terminates; try done. by apply reachable_inv.
Qed.

Lemma reach_done_or_fuel s i :
  reachable s → legal s i →
  step s (i_ev i) (i_fresh i) (i_bserial i) = Panic 0 ∨
  ∃ s' o, step s (i_ev i) (i_fresh i) (i_bserial i) = Done (s', o) ∧ Inv s'.
Proof.
  intros Hr Hl. destruct (legal_split _ _ Hl) as (L1 & L2 & L3).
  apply step_done_or_fuel; try done. by apply reachable_inv.
Qed.

(* ---------------------------------------------------------------- bystanders stay connected *)
From Aldrin Require Import Broker.InvProofsAlive.
From RecordUpdate Require Import RecordSet.
Import RecordSetNotations.

(* events that do not themselves ask for [c2] to go away *)
Definition bystander_ok (c2 : conn) (e : event) : Prop :=
  match e with
  | ConnectionShutdown c | ShutdownConnection c | DropTask c | Message c _ => c ≠ c2
  | ShutdownBroker => False
  | NewConnection _ _ | ShutdownIdleBroker => True
  end.

Lemma stays_init s c2 cs2 :
  conns s !! c2 = Some cs2 → cs_alive cs2 = true → stays c2 {| ms := s; mw := work0; mo := [] |}.
Proof. intros Hc Ha. split; [eauto|]. intros sd Hin. by apply elem_of_nil in Hin. Qed.

Lemma handler_stays s e f b c2 cs2 :
  conns s !! c2 = Some cs2 → cs_alive cs2 = true → bystander_ok c2 e →
  opr (stays c2) (handler_of s e f b).
Proof.
  intros Hc Ha He. pose proof (stays_init s c2 cs2 Hc Ha) as H0. unfold handler_of.
  destruct e as [c ver|c|c x| | |c|c]; cbn in He.
  - destruct (conns s !! c) eqn:Ec; [done|]. cbn. unfold stays. cbn. split; [|apply H0].
    exists cs2. rewrite lookup_insert_ne; [done|]. intros ->. congruence.
  - cbn. unfold stays. cbn. by apply stays_push_ne.
  - pose proof (handle_stays c2 _ c x f b H0) as Hh.
    destruct (handle _ c x f b) as [m|m|]; cbn in *; [done| |done].
    unfold stays. cbn. by apply stays_push_ne.
  - done.
  - cbn. exact H0.
  - cbn. unfold stays. cbn. by apply stays_push_ne.
  - cbn. destruct (conns s !! c) as [cs|] eqn:Ec; [|exact H0]. unfold stays. cbn. split; [|apply H0].
    exists cs2. rewrite lookup_insert_ne; [done|]. done.
Qed.

Lemma step_bystander_stays s e f b c2 cs2 s' o :
  conns s !! c2 = Some cs2 → cs_alive cs2 = true → bystander_ok c2 e →
  step s e f b = Done (s', o) →
  ∃ cs', conns s' !! c2 = Some cs' ∧ cs_alive cs' = true.
Proof.
  intros Hc Ha He Hs. rewrite step_step_fuel in Hs. unfold step_fuel in Hs.
  pose proof (handler_stays s e f b c2 cs2 Hc Ha He) as Hh.
  destruct (handler_of s e f b) as [m|m|]; cbn in Hh; [| |done].
  - pose proof (settle_stays c2 (fuel_for (ms m)) m Hh) as Hst.
    destruct (settle (fuel_for (ms m)) m) as [m'|m'|]; [| |done]; inversion Hs; subst; apply Hst.
  - pose proof (settle_stays c2 (fuel_for (ms m)) m Hh) as Hst.
    destruct (settle (fuel_for (ms m)) m) as [m'|m'|]; [| |done]; inversion Hs; subst; apply Hst.
Qed.

(* the sender itself stays when its handler returns Ok *)
Lemma step_sender_stays s c x f b cs m s' o :
  conns s !! c = Some cs → cs_alive cs = true →
  handle {| ms := s; mw := work0; mo := [] |} c x f b = Done m →
  step s (Message c x) f b = Done (s', o) →
  ∃ cs', conns s' !! c = Some cs' ∧ cs_alive cs' = true.
Proof.
  intros Hc Ha Hh Hs. unfold step in Hs. rewrite Hh in Hs.
  pose proof (handle_stays c _ c x f b (stays_init s c cs Hc Ha)) as Hst. rewrite Hh in Hst. cbn in Hst.
  pose proof (settle_stays c (fuel_for (ms m)) m Hst) as Hst2.
  destruct (settle (fuel_for (ms m)) m) as [m'|m'|]; [| |done]; inversion Hs; subst; apply Hst2.
Qed.

(* ---------------------------------------------------------------- closing connections *)
From Aldrin Require Import Broker.InvProofsGone.

Lemma step_done_settle s e f b s' o :
  step s e f b = Done (s', o) →
  ∃ m m', (handler_of s e f b = Done m ∨ handler_of s e f b = Fail m) ∧
          settle (fuel_for (ms m)) m = Done m' ∧ s' = ms m' ∧ o = mo m'.
Proof.
  rewrite step_step_fuel. unfold step_fuel. intros Hs.
  destruct (handler_of s e f b) as [m|m|] eqn:Eh; [| |done];
    (destruct (settle (fuel_for (ms m)) m) as [m'|m'|] eqn:Es; [| |done];
     [|exfalso; by eapply settle_never_fails]); inversion Hs; subst; eauto 10.
Qed.

(* a connection whose handler reports an error is closed within the same step *)
Lemma failing_sender_closed s c x f b mf s' o :
  handle {| ms := s; mw := work0; mo := [] |} c x f b = Fail mf →
  step s (Message c x) f b = Done (s', o) → conns s' !! c = None.
Proof.
  intros Hh Hs. apply step_done_settle in Hs as (m & m' & Hm & Hst & -> & _).
  unfold handler_of in Hm. rewrite Hh in Hm.
  destruct Hm as [Hm|Hm]; [|done]. inversion Hm; subst m.
  eapply settle_gone_done; [|exact Hst]. left. exists false. cbn. left.
Qed.

(* explicit shutdown events close the named connection; ShutdownBroker closes all *)
Lemma shutdown_event_closes s c f b s' o e :
  e = ConnectionShutdown c ∨ e = ShutdownConnection c →
  step s e f b = Done (s', o) → conns s' !! c = None.
Proof.
  intros He Hs. apply step_done_settle in Hs as (m & m' & Hm & Hst & -> & _).
  eapply settle_gone_done; [|exact Hst].
  destruct He as [-> | ->]; cbn in Hm; (destruct Hm as [Hm|Hm]; [|done]); inversion Hm; subst m;
    left; eexists; cbn; left.
Qed.

Lemma push_all_queue (l : list (conn * cstate)) m c cs :
  (c, cs) ∈ l → (c, true) ∈ w_remove_conns (mw (foldr (fun p m => push_remove m p.1 true) m l)).
Proof.
  induction l as [|p l IH]; [by intros ?%elem_of_nil|]. intros Hin. cbn.
  apply elem_of_cons in Hin as [<-|Hin]; [left|right; by apply IH].
Qed.

Lemma push_all_conns (l : list (conn * cstate)) m :
  conns (ms (foldr (fun p m => push_remove m p.1 true) m l)) = conns (ms m).
Proof. induction l as [|p l IH]; cbn; done. Qed.

Lemma shutdown_broker_closes_all s f b s' o :
  step s ShutdownBroker f b = Done (s', o) → conns s' = ∅.
Proof.
  intros Hs. apply step_done_settle in Hs as (m & m' & Hm & Hst & -> & _).
  cbn in Hm. destruct Hm as [Hm|Hm]; [|done]. inversion Hm; subst m. clear Hm.
  apply map_empty. intros c. eapply settle_gone_done; [|exact Hst].
  unfold gone. cbn. destruct (conns s !! c) as [cs|] eqn:Ec.
  - left. exists true. eapply push_all_queue. by apply elem_of_map_to_list.
  - right. by rewrite push_all_conns.
Qed.

(* a message is handled (the sender stays connected) or rejected (the sender is closed) *)
Lemma message_handled_or_closed s i c x cs s' o :
  reachable s → legal s i → i_ev i = Message c x →
  conns s !! c = Some cs → cs_alive cs = true →
  step s (Message c x) (i_fresh i) (i_bserial i) = Done (s', o) →
  (∃ m, handle {| ms := s; mw := work0; mo := [] |} c x (i_fresh i) (i_bserial i) = Done m ∧
        ∃ cs', conns s' !! c = Some cs' ∧ cs_alive cs' = true) ∨
  (∃ mf, handle {| ms := s; mw := work0; mo := [] |} c x (i_fresh i) (i_bserial i) = Fail mf ∧
         conns s' !! c = None).
Proof.
  intros Hr Hl He Hc Ha Hs. destruct (legal_split _ _ Hl) as (L1 & L2 & L3). rewrite He in L3.
  pose proof (handle_good {| ms := s; mw := work0; mo := [] |} c x (i_fresh i) (i_bserial i)
                (reachable_inv s Hr) eq_refl L1 L2 L3) as Hg.
  destruct (handle _ c x (i_fresh i) (i_bserial i)) as [m|mf|] eqn:Eh; [| |done].
  - left. exists m. split; [done|]. eapply step_sender_stays; eauto.
  - right. exists mf. split; [done|]. eapply failing_sender_closed; eauto.
Qed.

(* ---------------------------------------------------------------- objects of other connections *)
From Aldrin Require Import Broker.InvProofsKeep.

(* whatever connection [c] sends, an object owned by another, healthy connection is still there *)
Lemma step_keeps_others s i c x u o cso s' out :
  reachable s → legal s i → i_ev i = Message c x →
  objs s !! u = Some o → o_owner o ≠ c → conns s !! o_owner o = Some cso → cs_alive cso = true →
  step s (Message c x) (i_fresh i) (i_bserial i) = Done (s', out) →
  objs s' !! u = Some o.
Proof.
  intros Hr Hl He Hu Hne Hco Hao Hs. destruct (legal_split _ _ Hl) as (L1 & L2 & L3). rewrite He in L3.
  destruct (handler_good s (Message c x) (i_fresh i) (i_bserial i) (reachable_inv s Hr) L1 L2 L3) as (m & Hm & HI).
  assert (keeps_obj u o m) as Hk.
  { unfold handler_of in Hm.
    pose proof (handle_keeps u o {| ms := s; mw := work0; mo := [] |} c x (i_fresh i) (i_bserial i) Hu Hne) as Hh.
    destruct (handle _ c x (i_fresh i) (i_bserial i)) as [m1|m1|]; [| |done]; inversion Hm; subst m; exact Hh. }
  destruct (step_bystander_stays s (Message c x) (i_fresh i) (i_bserial i) (o_owner o) cso s' out Hco Hao)
    as (cs' & Hc' & _); [cbn; congruence|exact Hs|].
  rewrite step_step_fuel in Hs. unfold step_fuel in Hs. rewrite Hm in Hs.
  pose proof (settle_spec (fuel_for (ms m)) m HI) as Hst.
  destruct (settle (fuel_for (ms m)) m) as [m'|m'|]; [|done..]. inversion Hs; subst.
  destruct Hst as (_ & (_ & _ & _ & Hkeep) & _). destruct (Hkeep _ _ Hk) as [?|Hn]; [done|congruence].
Qed.
