(* Props/C11_lemmas.v — consequences of the broker invariant used by Props/C11.v: histories,
   no residue without connections, and the readable form of the pending-call clauses. *)
From stdpp Require Import gmap list.
From RecordUpdate Require Import RecordSet.
From Aldrin Require Import gen.BrokerConsts Broker.Model Broker.Run Broker.ChannelProofs Broker.Inv
  Broker.InvProofsBase Broker.InvProofsSettle Broker.InvProofsHandle3 Broker.InvProofsStep
  Broker.InvProofsTerm.
From Coq Require Import Lia.
Local Open Scope N_scope.

(* every input of the history is legal in the state it is applied to *)
Fixpoint legal_run (s : state) (h : list input) : Prop :=
  match h with
  | [] => True
  | i :: rest => legal s i ∧
      ∀ s' o, step s (i_ev i) (i_fresh i) (i_bserial i) = Done (s', o) → legal_run s' rest
  end.

Lemma run_spec h : ∀ s, Inv s → legal_run s h →
  match run s h with
  | Done (s', _) => Inv s'
  | Fail _ => False
  | Panic site => site = 0
  end.
Proof.
  induction h as [|i h IH]; intros s H Hl; cbn; [done|]. destruct Hl as [Hl Hrest].
  destruct (legal_split _ _ Hl) as (L1 & L2 & L3).
  pose proof (step_spec s (i_ev i) (i_fresh i) (i_bserial i) H L1 L2 L3) as Hst.
  destruct (step s (i_ev i) (i_fresh i) (i_bserial i)) as [[s' o]|[s' o]|site]; [|done..].
  specialize (IH s' Hst (Hrest _ _ eq_refl)).
  destruct (run s' h) as [[s'' os]|[s'' os]|site]; done.
Qed.

Lemma run_no_panic h site : legal_run init h → site ≠ 0 → run init h ≠ Panic site.
Proof.
  intros Hl Hne Hr. pose proof (run_spec h init inv_init Hl) as Hs. rewrite Hr in Hs. done.
Qed.

Lemma run_reachable h : ∀ s s' os, reachable s → legal_run s h → run s h = Done (s', os) → reachable s'.
Proof.
  induction h as [|i h IH]; intros s s' os Hr Hl; cbn.
  - intros [= <- _]. done.
  - destruct Hl as [Hl Hrest].
    destruct (step s (i_ev i) (i_fresh i) (i_bserial i)) as [[s1 o]|[s1 o]|site] eqn:Es; [| |done].
    + intros Hrun. destruct (run s1 h) as [[s2 os2]|[s2 os2]|site] eqn:Er; [| |done].
      * inversion Hrun; subst. eapply IH; [|eapply Hrest; eauto|exact Er]. eapply reach_step; eauto.
      * exfalso. pose proof (run_spec h s1) as Hs. rewrite Er in Hs. apply Hs.
        -- eapply inv_step; eauto. by apply reachable_inv.
        -- eapply Hrest; eauto.
    + exfalso. eapply (inv_no_fail s i (s1, o)); eauto. by apply reachable_inv.
Qed.

(* without connections nothing is left *)
Lemma inv_no_residue s :
  Inv s → conns s = ∅ →
  objs s = ∅ ∧ svcs s = ∅ ∧ calls s = ∅ ∧ chans s = ∅ ∧ listeners s = ∅.
Proof.
  intros H Hc. unfold Inv, InvW, InvX in H. rewrite Hc, dom_empty_L in H.
  assert (objs s = ∅) as Ho.
  { apply map_empty. intros u. destruct (objs s !! u) as [o|] eqn:E; [|done].
    pose proof (iv_oo _ _ _ _ _ H _ _ E) as Hin. set_solver. }
  assert (svcs s = ∅) as Hs.
  { apply map_empty. intros k. destruct (svcs s !! k) as [sv|] eqn:E; [|done].
    destruct (iv_reg _ _ _ _ _ H _ _ E) as (o & Hu & _). rewrite Ho, lookup_empty in Hu. done. }
  split; [done|]. split; [done|]. split; [|split].
  - apply map_empty. intros b. destruct (calls s !! b) as [cl|] eqn:E; [|done].
    destruct (iv_cs _ _ _ _ _ H _ _ E) as (sv & Hk & _). rewrite Hs, lookup_empty in Hk. done.
  - apply map_empty. intros k. destruct (chans s !! k) as [ch|] eqn:E; [|done].
    pose proof (iv_ch _ _ _ _ _ H _ _ E) as Hok. destruct (iv_oc _ _ _ _ _ H _ _ E) as [H1 H2].
    unfold chan_ok in Hok. destruct (ch_s ch), (ch_r ch); cbn in *; try done; set_solver.
  - apply map_empty. intros k. destruct (listeners s !! k) as [l|] eqn:E; [|done].
    pose proof (iv_ol _ _ _ _ _ H _ _ E) as Hin. set_solver.
Qed.

(* the pending map of a connected client is exactly its live, non-aborted calls *)
Lemma inv_pending_iff s c cs serial b :
  Inv s → conns s !! c = Some cs →
  (∃ callee, cs_calls cs !! serial = Some (b, callee)) ↔
  (∃ cl, calls s !! b = Some cl ∧ c_caller cl = c ∧ c_serial cl = serial ∧ c_aborted cl = false).
Proof.
  intros H Hc. split.
  - intros (callee & He). destruct (iv_ec _ _ _ _ _ H _ _ _ _ _ Hc He) as [?|[_ [r Hr]]]; [done|].
    by apply elem_of_nil in Hr.
  - intros (cl & Hb & <- & <- & Ha). eapply (iv_ce _ _ _ _ _ H); eauto.
Qed.

(* a live non-aborted call has a connected caller *)
Lemma inv_caller_connected s b cl :
  Inv s → calls s !! b = Some cl → c_aborted cl = false → is_Some (conns s !! c_caller cl).
Proof.
  intros H Hb Ha. destruct (iv_cl _ _ _ _ _ H _ _ Hb Ha) as [Hin|[ce Hin]]; [by apply elem_of_dom|].
  by apply elem_of_nil in Hin.
Qed.

(* ---------------------------------------------------------------- reachable-state forms *)
Lemma reach_no_panic s i site :
  reachable s → legal s i → site ≠ 0 → step s (i_ev i) (i_fresh i) (i_bserial i) ≠ Panic site.
Proof. intros Hr. apply inv_no_panic. by apply reachable_inv. Qed.

Lemma reach_no_fail s i x :
  reachable s → legal s i → step s (i_ev i) (i_fresh i) (i_bserial i) ≠ Fail x.
Proof. intros Hr. apply inv_no_fail. by apply reachable_inv. Qed.

Lemma run_inv h s os : legal_run init h → run init h = Done (s, os) → Inv s.
Proof.
  intros Hl Hr. pose proof (run_spec h init inv_init Hl) as Hs. rewrite Hr in Hs. exact Hs.
Qed.

Lemma reach_no_residue s :
  reachable s → conns s = ∅ →
  objs s = ∅ ∧ svcs s = ∅ ∧ calls s = ∅ ∧ chans s = ∅ ∧ listeners s = ∅.
Proof. intros Hr. apply inv_no_residue. by apply reachable_inv. Qed.

Lemma reach_pending_iff s c cs serial b :
  reachable s → conns s !! c = Some cs →
  (∃ callee, cs_calls cs !! serial = Some (b, callee)) ↔
  (∃ cl, calls s !! b = Some cl ∧ c_caller cl = c ∧ c_serial cl = serial ∧ c_aborted cl = false).
Proof. intros Hr. apply inv_pending_iff. by apply reachable_inv. Qed.

Lemma legal_example :
  legal init {| i_ev := NewConnection 1 20; i_fresh := 7; i_bserial := None |}.
Proof. repeat split; try done. Qed.

(* ---------------------------------------------------------------- termination *)
Lemma reach_terminates s i :
  reachable s → legal s i →
  ∃ n s' o, Inv s' ∧
    ∀ F : M → nat, (∀ m, n ≤ F m)%nat →
      step_fuel F s (i_ev i) (i_fresh i) (i_bserial i) = Done (s', o).
Proof.
  intros Hr Hl. destruct (legal_split _ _ Hl) as (L1 & L2 & L3).
  apply step_terminates; try done. by apply reachable_inv.
Qed.

Lemma reach_done_or_fuel s i :
  reachable s → legal s i →
  step s (i_ev i) (i_fresh i) (i_bserial i) = Panic 0 ∨
  ∃ s' o, step s (i_ev i) (i_fresh i) (i_bserial i) = Done (s', o) ∧ Inv s'.
Proof.
  intros Hr Hl. destruct (legal_split _ _ Hl) as (L1 & L2 & L3).
  apply step_done_or_fuel; try done. by apply reachable_inv.
Qed.

(* ---------------------------------------------------------------- the explicit fuel bound *)
From Aldrin Require Import Broker.FuelProofs.

(* the model's own step (fuel [fuel_for]) is Done: the fuel site 0 is unreachable *)
Lemma reach_step_total s i :
  reachable s → legal s i →
  ∃ s' o, step s (i_ev i) (i_fresh i) (i_bserial i) = Done (s', o) ∧ Inv s'.
Proof.
  intros Hr Hl. destruct (legal_split _ _ Hl) as (L1 & L2 & L3).
  exact (step_total s (i_ev i) (i_fresh i) (i_bserial i) (reachable_inv _ Hr) L1 L2 L3).
Qed.

Lemma reach_step_total_reach s i :
  reachable s → legal s i →
  ∃ s' o, step s (i_ev i) (i_fresh i) (i_bserial i) = Done (s', o) ∧ reachable s' ∧ Inv s'.
Proof.
  intros Hr Hl. destruct (reach_step_total s i Hr Hl) as (s' & o & Hs & Hi). exists s', o. split; [done|].
  split; [eapply reach_step; eauto|done].
Qed.

Lemma reach_never_panics s i site :
  reachable s → legal s i → step s (i_ev i) (i_fresh i) (i_bserial i) ≠ Panic site.
Proof. intros Hr Hl Hp. destruct (reach_step_total s i Hr Hl) as (s' & o & Hs & _). congruence. Qed.

(* history form: every legal history runs to completion *)
Lemma run_total h : ∀ s, reachable s → legal_run s h → ∃ s' os, run s h = Done (s', os) ∧ reachable s'.
Proof.
  induction h as [|i h IH]; intros s Hr Hl; cbn; [eauto|]. destruct Hl as [Hl Hrest].
  destruct (reach_step_total_reach s i Hr Hl) as (s1 & o & Hs & Hr1 & _). rewrite Hs.
  destruct (IH s1 Hr1 (Hrest _ _ Hs)) as (s2 & os & Hrun & Hr2). rewrite Hrun. eauto.
Qed.

Lemma run_total_init h : legal_run init h → ∃ s os, run init h = Done (s, os).
Proof. intros Hl. destruct (run_total h init reach_init Hl) as (s & os & Hr & _). eauto. Qed.

(* ---------------------------------------------------------------- bystanders stay connected *)
From Aldrin Require Import Broker.InvProofsAlive.
From RecordUpdate Require Import RecordSet.
Import RecordSetNotations.

(* events that do not themselves ask for [c2] to go away *)
Definition bystander_ok (c2 : conn) (e : event) : Prop :=
  match e with
  | ConnectionShutdown c | ShutdownConnection c | DropTask c | Message c _ => c ≠ c2
  | ShutdownBroker => False
  | NewConnection _ _ | ShutdownIdleBroker => True
  end.

Lemma stays_init s c2 cs2 :
  conns s !! c2 = Some cs2 → cs_alive cs2 = true → stays c2 {| ms := s; mw := work0; mo := [] |}.
Proof. intros Hc Ha. split; [eauto|]. intros sd Hin. by apply elem_of_nil in Hin. Qed.

Lemma handler_stays s e f b c2 cs2 :
  conns s !! c2 = Some cs2 → cs_alive cs2 = true → bystander_ok c2 e →
  opr (stays c2) (handler_of s e f b).
Proof.
  intros Hc Ha He. pose proof (stays_init s c2 cs2 Hc Ha) as H0. unfold handler_of.
  destruct e as [c ver|c|c x| | |c|c]; cbn in He.
  - destruct (conns s !! c) eqn:Ec; [done|]. cbn. unfold stays. cbn. split; [|apply H0].
    exists cs2. rewrite lookup_insert_ne; [done|]. intros ->. congruence.
  - cbn. unfold stays. cbn. by apply stays_push_ne.
  - pose proof (handle_stays c2 _ c x f b H0) as Hh.
    destruct (handle _ c x f b) as [m|m|]; cbn in *; [done| |done].
    unfold stays. cbn. by apply stays_push_ne.
  - done.
  - cbn. exact H0.
  - cbn. unfold stays. cbn. by apply stays_push_ne.
  - cbn. destruct (conns s !! c) as [cs|] eqn:Ec; [|exact H0]. unfold stays. cbn. split; [|apply H0].
    exists cs2. rewrite lookup_insert_ne; [done|]. done.
Qed.

Lemma step_bystander_stays s e f b c2 cs2 s' o :
  conns s !! c2 = Some cs2 → cs_alive cs2 = true → bystander_ok c2 e →
  step s e f b = Done (s', o) →
  ∃ cs', conns s' !! c2 = Some cs' ∧ cs_alive cs' = true.
Proof.
  intros Hc Ha He Hs. rewrite step_step_fuel in Hs. unfold step_fuel in Hs.
  pose proof (handler_stays s e f b c2 cs2 Hc Ha He) as Hh.
  destruct (handler_of s e f b) as [m|m|]; cbn in Hh; [| |done].
  - pose proof (settle_stays c2 (fuel_for m) m Hh) as Hst.
    destruct (settle (fuel_for m) m) as [m'|m'|]; [| |done]; inversion Hs; subst; apply Hst.
  - pose proof (settle_stays c2 (fuel_for m) m Hh) as Hst.
    destruct (settle (fuel_for m) m) as [m'|m'|]; [| |done]; inversion Hs; subst; apply Hst.
Qed.

(* the sender itself stays when its handler returns Ok *)
Lemma step_sender_stays s c x f b cs m s' o :
  conns s !! c = Some cs → cs_alive cs = true →
  handle {| ms := s; mw := work0; mo := [] |} c x f b = Done m →
  step s (Message c x) f b = Done (s', o) →
  ∃ cs', conns s' !! c = Some cs' ∧ cs_alive cs' = true.
Proof.
  intros Hc Ha Hh Hs. unfold step in Hs. rewrite Hh in Hs.
  pose proof (handle_stays c _ c x f b (stays_init s c cs Hc Ha)) as Hst. rewrite Hh in Hst. cbn in Hst.
  pose proof (settle_stays c (fuel_for m) m Hst) as Hst2.
  destruct (settle (fuel_for m) m) as [m'|m'|]; [| |done]; inversion Hs; subst; apply Hst2.
Qed.

(* ---------------------------------------------------------------- closing connections *)
From Aldrin Require Import Broker.InvProofsGone.

Lemma step_done_settle s e f b s' o :
  step s e f b = Done (s', o) →
  ∃ m m', (handler_of s e f b = Done m ∨ handler_of s e f b = Fail m) ∧
          settle (fuel_for m) m = Done m' ∧ s' = ms m' ∧ o = mo m'.
Proof.
  rewrite step_step_fuel. unfold step_fuel. intros Hs.
  destruct (handler_of s e f b) as [m|m|] eqn:Eh; [| |done];
    (destruct (settle (fuel_for m) m) as [m'|m'|] eqn:Es; [| |done];
     [|exfalso; by eapply settle_never_fails]); inversion Hs; subst; eauto 10.
Qed.

(* a connection whose handler reports an error is closed within the same step *)
Lemma failing_sender_closed s c x f b mf s' o :
  handle {| ms := s; mw := work0; mo := [] |} c x f b = Fail mf →
  step s (Message c x) f b = Done (s', o) → conns s' !! c = None.
Proof.
  intros Hh Hs. apply step_done_settle in Hs as (m & m' & Hm & Hst & -> & _).
  unfold handler_of in Hm. rewrite Hh in Hm.
  destruct Hm as [Hm|Hm]; [|done]. inversion Hm; subst m.
  eapply settle_gone_done; [|exact Hst]. left. exists false. cbn. left.
Qed.

(* explicit shutdown events close the named connection; ShutdownBroker closes all *)
Lemma shutdown_event_closes s c f b s' o e :
  e = ConnectionShutdown c ∨ e = ShutdownConnection c →
  step s e f b = Done (s', o) → conns s' !! c = None.
Proof.
  intros He Hs. apply step_done_settle in Hs as (m & m' & Hm & Hst & -> & _).
  eapply settle_gone_done; [|exact Hst].
  destruct He as [-> | ->]; cbn in Hm; (destruct Hm as [Hm|Hm]; [|done]); inversion Hm; subst m;
    left; eexists; cbn; left.
Qed.

Lemma push_all_queue (l : list (conn * cstate)) m c cs :
  (c, cs) ∈ l → (c, true) ∈ w_remove_conns (mw (foldr (fun p m => push_remove m p.1 true) m l)).
Proof.
  induction l as [|p l IH]; [by intros ?%elem_of_nil|]. intros Hin. cbn.
  apply elem_of_cons in Hin as [<-|Hin]; [left|right; by apply IH].
Qed.

Lemma push_all_conns (l : list (conn * cstate)) m :
  conns (ms (foldr (fun p m => push_remove m p.1 true) m l)) = conns (ms m).
Proof. induction l as [|p l IH]; cbn; done. Qed.

Lemma shutdown_broker_closes_all s f b s' o :
  step s ShutdownBroker f b = Done (s', o) → conns s' = ∅.
Proof.
  intros Hs. apply step_done_settle in Hs as (m & m' & Hm & Hst & -> & _).
  cbn in Hm. destruct Hm as [Hm|Hm]; [|done]. inversion Hm; subst m. clear Hm.
  apply map_empty. intros c. eapply settle_gone_done; [|exact Hst].
  unfold gone. cbn. destruct (conns s !! c) as [cs|] eqn:Ec.
  - left. exists true. eapply push_all_queue. by apply elem_of_map_to_list.
  - right. by rewrite push_all_conns.
Qed.

(* a message is handled (the sender stays connected) or rejected (the sender is closed) *)
Lemma message_handled_or_closed s i c x cs s' o :
  reachable s → legal s i → i_ev i = Message c x →
  conns s !! c = Some cs → cs_alive cs = true →
  step s (Message c x) (i_fresh i) (i_bserial i) = Done (s', o) →
  (∃ m, handle {| ms := s; mw := work0; mo := [] |} c x (i_fresh i) (i_bserial i) = Done m ∧
        ∃ cs', conns s' !! c = Some cs' ∧ cs_alive cs' = true) ∨
  (∃ mf, handle {| ms := s; mw := work0; mo := [] |} c x (i_fresh i) (i_bserial i) = Fail mf ∧
         conns s' !! c = None).
Proof.
  intros Hr Hl He Hc Ha Hs. destruct (legal_split _ _ Hl) as (L1 & L2 & L3). rewrite He in L3.
  pose proof (handle_good {| ms := s; mw := work0; mo := [] |} c x (i_fresh i) (i_bserial i)
                (reachable_inv s Hr) eq_refl L1 L2 L3) as Hg.
  destruct (handle _ c x (i_fresh i) (i_bserial i)) as [m|mf|] eqn:Eh; [| |done].
  - left. exists m. split; [done|]. eapply step_sender_stays; eauto.
  - right. exists mf. split; [done|]. eapply failing_sender_closed; eauto.
Qed.

(* ---------------------------------------------------------------- objects of other connections *)
From Aldrin Require Import Broker.InvProofsKeep.

(* whatever connection [c] sends, an object owned by another, healthy connection is still there *)
Lemma step_keeps_others s i c x u o cso s' out :
  reachable s → legal s i → i_ev i = Message c x →
  objs s !! u = Some o → o_owner o ≠ c → conns s !! o_owner o = Some cso → cs_alive cso = true →
  step s (Message c x) (i_fresh i) (i_bserial i) = Done (s', out) →
  objs s' !! u = Some o.
Proof.
  intros Hr Hl He Hu Hne Hco Hao Hs. destruct (legal_split _ _ Hl) as (L1 & L2 & L3). rewrite He in L3.
  destruct (handler_good s (Message c x) (i_fresh i) (i_bserial i) (reachable_inv s Hr) L1 L2 L3) as (m & Hm & HI).
  assert (keeps_obj u o m) as Hk.
  { unfold handler_of in Hm.
    pose proof (handle_keeps u o {| ms := s; mw := work0; mo := [] |} c x (i_fresh i) (i_bserial i) Hu Hne) as Hh.
    destruct (handle _ c x (i_fresh i) (i_bserial i)) as [m1|m1|]; [| |done]; inversion Hm; subst m; exact Hh. }
  destruct (step_bystander_stays s (Message c x) (i_fresh i) (i_bserial i) (o_owner o) cso s' out Hco Hao)
    as (cs' & Hc' & _); [cbn; congruence|exact Hs|].
  rewrite step_step_fuel in Hs. unfold step_fuel in Hs. rewrite Hm in Hs.
  pose proof (settle_spec (fuel_for m) m HI) as Hst.
  destruct (settle (fuel_for m) m) as [m'|m'|]; [|done..]. inversion Hs; subst.
  destruct Hst as (_ & (_ & _ & _ & Hkeep) & _). destruct (Hkeep _ _ Hk) as [?|Hn]; [done|congruence].
Qed.

(* ---------------------------------------------------------------- channels of other connections *)
From Aldrin Require Import Broker.FuelProofsFrame.

Lemma handler_keeps_chan s e f b k ch o1 n1 o2 n2 :
  chans s !! k = Some ch → ch_s ch = Claimed o1 n1 → ch_r ch = Claimed o2 n2 →
  bystander_ok o1 e → bystander_ok o2 e → f ≠ k →
  opr (keeps_chan k ch) (handler_of s e f b).
Proof.
  intros Hk Hs Hr B1 B2 Hf. unfold handler_of.
  set (m0 := {| ms := s; mw := work0; mo := [] |}). assert (keeps_chan k ch m0) as H0 by exact Hk.
  destruct e as [c ver|c|c x| | |c|c]; cbn in B1, B2; try done.
  - destruct (conns s !! c); [done|exact H0].
  - pose proof (handle_kc k ch o1 o2 n1 n2 Hs Hr m0 c x f b H0 B1 B2 Hf) as Hh.
    destruct (handle m0 c x f b) as [m|m|]; cbn in *; done.
  - cbn. destruct (conns s !! c); exact H0.
Qed.

(* whatever happens to other connections, a channel whose two ends are claimed by healthy
   connections is exactly the same after the step *)
Lemma step_keeps_chan s e f b k ch o1 n1 o2 n2 cs1 cs2 s' out :
  chans s !! k = Some ch → ch_s ch = Claimed o1 n1 → ch_r ch = Claimed o2 n2 →
  conns s !! o1 = Some cs1 → cs_alive cs1 = true → conns s !! o2 = Some cs2 → cs_alive cs2 = true →
  bystander_ok o1 e → bystander_ok o2 e → f ∉ cookies_in_use s →
  step s e f b = Done (s', out) →
  chans s' !! k = Some ch.
Proof.
  intros Hk Hs Hr Hc1 Ha1 Hc2 Ha2 B1 B2 Hf Hst.
  assert (f ≠ k) as Hfk.
  { intros ->. apply Hf. unfold cookies_in_use. apply elem_of_dom_2 in Hk. set_solver. }
  pose proof (handler_keeps_chan s e f b k ch o1 n1 o2 n2 Hk Hs Hr B1 B2 Hfk) as H3.
  pose proof (handler_stays s e f b o1 cs1 Hc1 Ha1 B1) as H1.
  pose proof (handler_stays s e f b o2 cs2 Hc2 Ha2 B2) as H2.
  apply step_done_settle in Hst as (m & m' & Hm & Hse & -> & _).
  assert (kc_inv k ch o1 o2 m) as Hi.
  { destruct Hm as [Hm|Hm]; rewrite Hm in H1, H2, H3; cbn in *; done. }
  pose proof (settle_kc k ch o1 o2 n1 n2 Hs Hr (fuel_for m) m Hi) as Hk'. rewrite Hse in Hk'.
  apply Hk'.
Qed.

Lemma step_keeps_chan_msg s i c x k ch o1 n1 o2 n2 cs1 cs2 s' out :
  legal s i → i_ev i = Message c x →
  chans s !! k = Some ch → ch_s ch = Claimed o1 n1 → ch_r ch = Claimed o2 n2 → o1 ≠ c → o2 ≠ c →
  conns s !! o1 = Some cs1 → cs_alive cs1 = true → conns s !! o2 = Some cs2 → cs_alive cs2 = true →
  step s (Message c x) (i_fresh i) (i_bserial i) = Done (s', out) →
  chans s' !! k = Some ch.
Proof.
  intros Hl He Hk Hs Hr N1 N2 Hc1 Ha1 Hc2 Ha2 Hst. destruct Hl as (Hf & _).
  eapply (step_keeps_chan s (Message c x)); eauto; cbn; congruence.
Qed.

(* ---------------------------------------------------------------- services of other connections *)
From Aldrin Require Import Broker.Wp.

Lemma handler_keeps_svc s e f b k o ck ock inf :
  sf k o ck ock inf s → bystander_ok (o_owner o) e → f ≠ ck → f ≠ o_cookie o →
  res (SP (sf k o ck ock inf)) (SP (sf k o ck ock inf)) (handler_of s e f b).
Proof.
  intros H0 B Hf1 Hf2. unfold handler_of. set (m0 := {| ms := s; mw := work0; mo := [] |}).
  destruct e as [c ver|c|c x| | |c|c]; cbn in B; try done.
  - destruct (conns s !! c); [done|exact H0].
  - pose proof (handle_sf k o ck ock inf m0 c x f b H0 B Hf1 Hf2) as Hh.
    destruct (handle m0 c x f b) as [m|m|]; cbn in *; done.
  - cbn. destruct (conns s !! c); exact H0.
Qed.

Lemma in_use_obj s u o : objs s !! u = Some o → o_cookie o ∈ cookies_in_use s.
Proof.
  intros H. unfold cookies_in_use. rewrite !elem_of_union. left. left. left.
  apply elem_of_list_to_set, elem_of_list_fmap. exists (u, o). split; [done|]. by apply elem_of_map_to_list.
Qed.
Lemma in_use_svc s k sv : svcs s !! k = Some sv → s_cookie sv ∈ cookies_in_use s.
Proof.
  intros H. unfold cookies_in_use. rewrite !elem_of_union. left. left. right.
  apply elem_of_list_to_set, elem_of_list_fmap. exists (k, sv). split; [done|]. by apply elem_of_map_to_list.
Qed.

(* whatever happens to other connections, a service whose owner is healthy is still registered
   under its key, for the same owner, with the same cookie, object cookie and info *)
Lemma step_keeps_svc s e f b k sv g csg s' out :
  Inv s → svcs s !! k = Some sv → owner_of_svc s k = Some g →
  conns s !! g = Some csg → cs_alive csg = true → bystander_ok g e → f ∉ cookies_in_use s →
  step s e f b = Done (s', out) →
  owner_of_svc s' k = Some g ∧
  ∃ sv', svcs s' !! k = Some sv' ∧ s_cookie sv' = s_cookie sv ∧ s_obj_cookie sv' = s_obj_cookie sv ∧
         s_info sv' = s_info sv.
Proof.
  intros HI Hk Ho Hc Ha B Hf Hst. unfold owner_of_svc in Ho.
  destruct (objs s !! k.1) as [o|] eqn:Eo; [|done]. cbn in Ho. injection Ho as <-.
  assert (sf k o (s_cookie sv) (s_obj_cookie sv) (s_info sv) s) as H0.
  { split; [done|]. split; [exists sv; by repeat split|]. split.
    - intros u' o' Hu' Hco. eapply (iv_uo _ _ _ _ _ HI); eauto.
    - intros k' sv' Hk' Hco. eapply (iv_us _ _ _ _ _ HI); eauto. }
  assert (f ≠ s_cookie sv) as Hf1 by (intros ->; apply Hf; by eapply in_use_svc).
  assert (f ≠ o_cookie o) as Hf2 by (intros ->; apply Hf; by eapply in_use_obj).
  pose proof (handler_keeps_svc s e f b k o _ _ _ H0 B Hf1 Hf2) as H3.
  pose proof (handler_stays s e f b (o_owner o) csg Hc Ha B) as H1.
  apply step_done_settle in Hst as (m & m' & Hm & Hse & -> & _).
  assert (sf_inv k o (s_cookie sv) (s_obj_cookie sv) (s_info sv) m) as Hi.
  { destruct Hm as [Hm|Hm]; rewrite Hm in H1, H3; cbn in *; done. }
  pose proof (settle_sf k o _ _ _ (fuel_for m) m Hi) as Hk'. rewrite Hse in Hk'.
  destruct Hk' as (_ & Hob & (sv' & Hsv' & E1 & E2 & E3) & _).
  split; [unfold owner_of_svc; by rewrite Hob|]. eauto 10.
Qed.

Lemma reach_keeps_svc s e f b k sv g csg s' out :
  reachable s → svcs s !! k = Some sv → owner_of_svc s k = Some g →
  conns s !! g = Some csg → cs_alive csg = true → bystander_ok g e → f ∉ cookies_in_use s →
  step s e f b = Done (s', out) →
  owner_of_svc s' k = Some g ∧
  ∃ sv', svcs s' !! k = Some sv' ∧ s_cookie sv' = s_cookie sv ∧ s_obj_cookie sv' = s_obj_cookie sv ∧
         s_info sv' = s_info sv.
Proof. intros Hr. apply step_keeps_svc. by apply reachable_inv. Qed.

(* ---------------------------------------------------------------- pending calls between other connections *)
From Aldrin Require Import Broker.FuelProofsFrameCalls.

Lemma handler_keeps_call s e f bs b cl o ck ock inf :
  cf b cl o ck ock inf s → bystander_ok (c_caller cl) e → bystander_ok (o_owner o) e →
  f ≠ ck → f ≠ o_cookie o →
  opr (fun m => cf b cl o ck ock inf (ms m) ∧ nb b m) (handler_of s e f bs).
Proof.
  intros H0 B1 B2 Hf1 Hf2. unfold handler_of. set (m0 := {| ms := s; mw := work0; mo := [] |}).
  assert (nb b m0) as Hn0 by (intros callee Hin; by apply elem_of_nil in Hin).
  destruct e as [c ver|c|c x| | |c|c]; cbn in B1, B2; try done.
  - destruct (conns s !! c); [done|]. cbn. split; [|exact Hn0]. unfold cf in *. cbn.
    apply cf_conn_new; [exact H0|]. intros serial callee. cbn. by rewrite lookup_empty.
  - pose proof (handle_cf b cl o ck ock inf m0 c x f bs H0 B1 B2 Hf1 Hf2) as Hh.
    pose proof (handle_nb b m0 c x f bs Hn0) as Hh2.
    assert (∀ cs, conns (ms m0) !! c = Some cs → no_entry b cs) as Hne.
    { intros cs Hcs. eapply cf_no_entry; [exact H0|exact Hcs|exact B1]. }
    specialize (Hh2 Hne). destruct (handle m0 c x f bs) as [m|m|]; cbn in *; done.
  - cbn. destruct (conns s !! c) as [cs|] eqn:Ec; [|done]. split; [|exact Hn0]. unfold cf in *. cbn.
    eapply cf_conn_update; [exact H0|exact Ec|]. intros Hn. exact Hn.
Qed.

(* whatever happens to other connections, a pending call whose caller and callee (the owner of the
   called service's object) are healthy keeps its record: not dropped, not answered, not aborted *)
Lemma step_keeps_call s e f bs b cl g cs1 cs2 s' out :
  Inv s → calls s !! b = Some cl → owner_of_svc s (c_svc cl) = Some g →
  conns s !! c_caller cl = Some cs1 → cs_alive cs1 = true → conns s !! g = Some cs2 → cs_alive cs2 = true →
  bystander_ok (c_caller cl) e → bystander_ok g e → f ∉ cookies_in_use s →
  step s e f bs = Done (s', out) →
  calls s' !! b = Some cl.
Proof.
  intros HI Hb Ho Hc1 Ha1 Hc2 Ha2 B1 B2 Hf Hst. unfold owner_of_svc in Ho.
  destruct (objs s !! (c_svc cl).1) as [o|] eqn:Eo; [|done]. cbn in Ho. injection Ho as <-.
  destruct (iv_cs _ _ _ _ _ HI _ _ Hb) as (sv & Hsv & Hbin).
  assert (cf b cl o (s_cookie sv) (s_obj_cookie sv) (s_info sv) s) as H0.
  { split; [done|]. split; [|split; [|split]].
    - split; [done|]. split; [exists sv; by repeat split|]. split.
      + intros u' o' Hu' Hco. eapply (iv_uo _ _ _ _ _ HI); eauto.
      + intros k' sv' Hk' Hco. eapply (iv_us _ _ _ _ _ HI); eauto.
    - intros k' sv' Hk' Hin. destruct (iv_sc _ _ _ _ _ HI _ _ _ Hk' Hin) as (cl' & Hcl' & <-). congruence.
    - intros c' cs' Hc' Hne serial callee Hent.
      destruct (iv_ec _ _ _ _ _ HI _ _ _ _ _ Hc' Hent) as [(cl' & Hcl' & <- & _)|[Hn _]]; congruence.
    - apply (proj2 (iv_cb _ _ _ _ _ HI)). eauto. }
  assert (f ≠ s_cookie sv) as Hf1 by (intros ->; apply Hf; by eapply in_use_svc).
  assert (f ≠ o_cookie o) as Hf2 by (intros ->; apply Hf; by eapply in_use_obj).
  pose proof (handler_keeps_call s e f bs b cl o _ _ _ H0 B1 B2 Hf1 Hf2) as H3.
  pose proof (handler_stays s e f bs (c_caller cl) cs1 Hc1 Ha1 B1) as H1.
  pose proof (handler_stays s e f bs (o_owner o) cs2 Hc2 Ha2 B2) as H2.
  apply step_done_settle in Hst as (m & m' & Hm & Hse & -> & _).
  assert (cf_inv b cl o (s_cookie sv) (s_obj_cookie sv) (s_info sv) m) as Hi.
  { destruct Hm as [Hm|Hm]; rewrite Hm in H1, H2, H3; cbn in *; unfold cf_inv; tauto. }
  pose proof (settle_cf b cl o _ _ _ (fuel_for m) m Hi) as Hk'. rewrite Hse in Hk'.
  destruct Hk' as (_ & _ & (Hcall & _) & _). exact Hcall.
Qed.

Lemma reach_keeps_call s e f bs b cl g cs1 cs2 s' out :
  reachable s → calls s !! b = Some cl → owner_of_svc s (c_svc cl) = Some g →
  conns s !! c_caller cl = Some cs1 → cs_alive cs1 = true → conns s !! g = Some cs2 → cs_alive cs2 = true →
  bystander_ok (c_caller cl) e → bystander_ok g e → f ∉ cookies_in_use s →
  step s e f bs = Done (s', out) →
  calls s' !! b = Some cl.
Proof. intros Hr. apply step_keeps_call. by apply reachable_inv. Qed.
