(* Props/C13.v — value epoch conversion (core/src/convert_value.rs).
   [conv_value b]      = Convert::new(src, dst, V1, 0)?.convert(): (bytes written, rest of src);
   [convert_api f t b] = SerializedValueSlice::convert(from, to) / SerializedValue::convert;
   [epoch_of (maj,min)] = Epoch::try_from(ProtocolVersion::new(maj, min));
   [de_value true]     = Deserializer::new(buf,0)?.deserialize::<Value>() (validates UTF-8),
   [de_value false]    = the same walk without UTF-8 validation (the converter does not validate);
   [v1_only b]         = b is exactly one value in the pre-1.20 wire grammar: the skip walker with
                         the five container encodings introduced in 1.20 (kinds 43..65) rejected in
                         kind position at every nesting level;
   [bytes_ok b]        = every element of b is below 256 (b is a byte string: the model's bytes are N).
   [b] ranges over ALL byte strings, values over all nestings and all mixtures of the two epochs. *)
From Aldrin Require Import Codec.Base Codec.Value Codec.De Codec.Skip Codec.Convert Props.C13_lemmas
  Codec.ConvertProofs Codec.ConvertIdem Codec.ConvertBytes.
Open Scope N_scope.

(* converting a well-formed value succeeds and the result decodes to the same value *)
Theorem C13_meaning : forall b v, bytes_ok b = true -> lenN b <= 4294967295 ->
  de_value false b = Ok (v, []) ->
  exists b', conv_value b = Ok (b', []) /\ de_value false b' = Ok (v, []).
Proof. exact (meaning false). Qed.
Print Assumptions C13_meaning.

Theorem C13_meaning_utf8 : forall b v, bytes_ok b = true -> lenN b <= 4294967295 ->
  de_value true b = Ok (v, []) ->
  exists b', conv_value b = Ok (b', []) /\ de_value true b' = Ok (v, []).
Proof. exact (meaning true). Qed.
Print Assumptions C13_meaning_utf8.

(* the result contains none of the container encodings introduced in 1.20 ... *)
Theorem C13_no_v2 : forall b b', bytes_ok b = true -> conv_value b = Ok (b', []) -> v1_only b' = true.
Proof. exact conv_value_v1_only. Qed.
Print Assumptions C13_no_v2.

(* ... where v1_only implies: the real skip walker accepts all of it, and the first byte is a
   pre-1.20 kind (nested positions: by the definition of v1walk) *)
Theorem C13_v1_only_wellformed : forall b, v1_only b = true ->
  skip_value b = Ok [] /\ exists k r, b = k :: r /\ k <= 42.
Proof. exact (fun b H => conj (v1_only_skippable b H) (v1_only_first b H)). Qed.
Print Assumptions C13_v1_only_wellformed.

(* the result is again a byte string, so every theorem here applies to it in turn *)
Theorem C13_output_bytes : forall b b' r, bytes_ok b = true -> conv_value b = Ok (b', r) -> bytes_ok b' = true.
Proof. exact conv_value_bytes_ok. Qed.
Print Assumptions C13_output_bytes.

(* converting twice equals converting once *)
Theorem C13_idempotent : forall b b', bytes_ok b = true ->
  conv_value b = Ok (b', []) -> conv_value b' = Ok (b', []).
Proof. exact conv_value_idempotent. Qed.
Print Assumptions C13_idempotent.

Theorem C13_api_idempotent : forall from to b b', bytes_ok b = true ->
  convert_api from to b = Ok b' -> convert_api from to b' = Ok b'.
Proof. exact api_idempotent. Qed.
Print Assumptions C13_api_idempotent.

(* converting to the same or a newer epoch returns the input unchanged (from defaults to 1.20) *)
Theorem C13_identity : forall from to b ef et,
  epoch_of (match from with Some v => v | None => (1, 20) end) = Ok ef -> epoch_of to = Ok et ->
  epoch_ltb et ef = false -> convert_api from to b = Ok b.
Proof. exact identity. Qed.
Print Assumptions C13_identity.

(* versions: exactly 1.14 ..= 1.20 are accepted; 1.14..1.19 are epoch 1, 1.20 is epoch 2 *)
Theorem C13_versions : forall maj min,
  epoch_of (maj, min) = Err InvalidVersion <-> ~ (maj = 1 /\ 14 <= min <= 20).
Proof. exact epoch_invalid_iff. Qed.
Print Assumptions C13_versions.

Theorem C13_epochs : forall min,
  (14 <= min <= 19 -> epoch_of (1, min) = Ok E1) /\ epoch_of (1, 20) = Ok E2.
Proof. exact epochs. Qed.
Print Assumptions C13_epochs.

Theorem C13_invalid_version : forall from to b,
  epoch_of (match from with Some v => v | None => (1, 20) end) = Err InvalidVersion \/
  epoch_of to = Err InvalidVersion ->
  convert_api from to b = Err InvalidVersion.
Proof. exact invalid_version. Qed.
Print Assumptions C13_invalid_version.

(* conversion fails only for ill-formed input (UTF-8 validity aside) or for invalid versions *)
Theorem C13_fails_only_if : forall b e, conv_value b = Err e ->
  (forall v, de_value false b <> Ok (v, [])) \/ 4294967295 < lenN b.
Proof. exact fails_only_if. Qed.
Print Assumptions C13_fails_only_if.

Theorem C13_api_fails_only_if : forall from to b e, convert_api from to b = Err e ->
  (epoch_of (match from with Some v => v | None => (1, 20) end) = Err InvalidVersion \/
   epoch_of to = Err InvalidVersion) \/
  (forall v, de_value false b <> Ok (v, [])) \/ 4294967295 < lenN b.
Proof. exact api_fails_only_if. Qed.
Print Assumptions C13_api_fails_only_if.

(* the converter accepts exactly the whole-input values the non-validating decoder accepts *)
Theorem C13_accepts_exactly : forall b, lenN b <= 4294967295 ->
  ((exists b', conv_value b = Ok (b', [])) <-> (exists v, de_value false b = Ok (v, []))).
Proof. exact accepts_exactly. Qed.
Print Assumptions C13_accepts_exactly.

(* error kinds: the converter reports the decoder's error kind, except UnexpectedEoi where the
   decoder says InvalidSerialization (short Bytes1 payload) and the extra Overflow; in particular
   it fails with TooDeeplyNested exactly where the decoder does *)
Theorem C13_error_kinds : forall b e, conv_value b = Err e ->
  e = Overflow \/ exists e', de_value false b = Err e' /\ (e = e' \/ (e = Eoi /\ e' = Invalid)).
Proof. exact error_kinds. Qed.
Print Assumptions C13_error_kinds.

Theorem C13_too_deep : forall b, lenN b <= 4294967295 ->
  (conv_value b = Err TooDeep <-> de_value false b = Err TooDeep).
Proof. exact too_deep_iff. Qed.
Print Assumptions C13_too_deep.

(* the walker is total on fuel = length + 1 ("never panics" at the level of the logic) *)
Theorem C13_total : forall from to b, conv_value b <> Err Fuel /\ convert_api from to b <> Err Fuel.
Proof. exact (fun from to b => conj (conv_value_total b) (api_total from to b)). Qed.
Print Assumptions C13_total.

(* the property as stated, for the literal versions: every downgrade from 1.20 (or unspecified)
   to 1.14..1.19 of a well-formed value *)
Theorem C13_downgrade : forall from min b v,
  (from = None \/ from = Some (1, 20)) -> 14 <= min <= 19 ->
  bytes_ok b = true -> lenN b <= 4294967295 -> de_value true b = Ok (v, []) ->
  exists b', convert_api from (1, min) b = Ok b' /\ de_value true b' = Ok (v, []) /\
             v1_only b' = true /\ convert_api from (1, min) b' = Ok b'.
Proof. exact downgrade. Qed.
Print Assumptions C13_downgrade.

(* the hypotheses are satisfiable and every branch is exercised: a mixed-epoch value with
   non-canonical encodings *)
Example C13_nonvacuous :
  bytes_ok sample = true /\ lenN sample <= 4294967295 /\
  de_value true sample = Ok (sample_value, []) /\
  convert_api None (1, 14) sample = Ok sample_out /\
  de_value true sample_out = Ok (sample_value, []) /\
  v1_only sample_out = true /\ v1_only sample = false /\
  convert_api (Some (1, 20)) (1, 19) sample_out = Ok sample_out /\
  convert_api (Some (1, 19)) (1, 20) sample = Ok sample /\
  convert_api (Some (1, 13)) (1, 19) sample = Err InvalidVersion /\
  convert_api None (1, 21) sample = Err InvalidVersion /\
  convert_api None (1, 19) (sample ++ [0]) = Err TrailingData /\
  convert_api None (1, 19) [43; 1] = Err Eoi.
Proof. exact sample_ok. Qed.

(* ---------- additions: error kinds; InvalidVersion ONLY for invalid versions ---------- *)
From Aldrin Require Import Codec.ConvertVersion.

(* the walker fails with UnexpectedEoi, InvalidSerialization, TooDeeplyNested or Overflow only: in
   particular never with InvalidVersion or TrailingData *)
Theorem C13_walker_error_kinds : forall b e, conv_value b = Err e ->
  e = Eoi \/ e = Invalid \/ e = TooDeep \/ e = Overflow.
Proof. exact conv_value_err_kinds. Qed.
Print Assumptions C13_walker_error_kinds.

(* the converse of C13_invalid_version: the API answers InvalidVersion only when a version is invalid *)
Theorem C13_invalid_version_only : forall from to b,
  convert_api from to b = Err InvalidVersion ->
  epoch_of (match from with Some v => v | None => (1, 20) end) = Err InvalidVersion \/
  epoch_of to = Err InvalidVersion.
Proof. exact invalid_version_only. Qed.
Print Assumptions C13_invalid_version_only.

(* both directions, in the literal version numbers: InvalidVersion exactly when `from` (default
   1.20) or `to` is outside 1.14..1.20, whatever the bytes *)
Theorem C13_invalid_version_iff : forall from to b,
  convert_api from to b = Err InvalidVersion <->
  (~ (fst (match from with Some v => v | None => (1, 20) end) = 1 /\
      14 <= snd (match from with Some v => v | None => (1, 20) end) <= 20) \/
   ~ (fst to = 1 /\ 14 <= snd to <= 20)).
Proof. exact invalid_version_numbers. Qed.
Print Assumptions C13_invalid_version_iff.

(* TrailingData only from the API's own test: the walker accepted and left input over *)
Theorem C13_trailing_data_only : forall from to b,
  convert_api from to b = Err TrailingData -> exists out x rest, conv_value b = Ok (out, x :: rest).
Proof. exact trailing_data_only. Qed.
Print Assumptions C13_trailing_data_only.

(* the complete list of error kinds of the API *)
Theorem C13_api_error_kinds : forall from to b e, convert_api from to b = Err e ->
  e = InvalidVersion \/ e = TrailingData \/ e = Eoi \/ e = Invalid \/ e = TooDeep \/ e = Overflow.
Proof. exact convert_api_err_kinds. Qed.
Print Assumptions C13_api_error_kinds.
