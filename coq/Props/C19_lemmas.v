(* Props/C19_lemmas.v — the statements of Props/C19.v assembled from ClientFold/*Proofs.v *)
From Coq Require Import List NArith Bool.
Import ListNotations.
From Aldrin Require Import ClientFold.Discoverer ClientFold.DiscovererProofs
  ClientFold.Lifetime ClientFold.LifetimeProofs.
Local Open Scope N_scope.

Lemma view' : forall sp l, deliverable l ->
  exists e,
    entry_run (entry_new sp) l = Ok (e, transitions t_empty l sp) /\
    (forall u c, In (u, c) (entry_iter e) <-> matchingb (trun t_empty l) sp u c = true) /\
    NoDup (map fst (entry_iter e)) /\
    (forall u c, matchingb (trun t_empty l) sp u c = true ->
       entry_object_id e u = Ok (Some c) /\
       exists ids, entry_service_ids e u (sp_svcs sp) = Ok (Some ids) /\
         Forall2 (fun s p => fst p = c /\ sget (t_svcs (trun t_empty l)) u s = Some p) (sp_svcs sp) ids).
Proof.
  intros sp l D. destruct (entry_run_ok sp l D) as (e & ER & I).
  exists e. split; auto. destruct (inv_view _ _ _ I) as [V1 V2]. split; auto. split; auto.
  intros u c M. split.
  - destruct (inv_object_id sp _ e u I (matching_opt _ _ _ _ M)) as (r & Er & Hr).
    rewrite Er. f_equal. now apply Hr.
  - now apply inv_service_ids.
Qed.

Lemma transitions_exact' : forall T ev sp u c,
  legalb T ev = true -> (u, c) <> ev_obj ev ->
  matchingb (tstep T ev) sp u c = matchingb T sp u c.
Proof. exact delta_frame. Qed.

Lemma discoverer' : forall sps l, deliverable l -> NoDup (map sp_key sps) ->
  exists es evs,
    disc_run (disc_new sps) l = Ok (es, evs) /\
    Forall2 (fun sp e => forall u c, In (u, c) (entry_iter e) <-> matchingb (trun t_empty l) sp u c = true) sps es /\
    forall sp, In sp sps ->
      filter (fun d => N.eqb (de_key d) (sp_key sp)) evs = transitions t_empty l sp.
Proof.
  intros sps l D ND.
  destruct (disc_run_ok_from sps l t_empty (disc_new sps) D (disc_new_inv sps)) as (es & ER & F).
  exists es, (dtransitions t_empty l sps). split; auto. split.
  - eapply Forall2_imp; [|exact F]. intros sp e I. now apply inv_view.
  - intros sp HI. now apply dtransitions_key.
Qed.

Lemma restart' : forall sp l l' e evs,
  entry_run (entry_new sp) l = Ok (e, evs) ->
  entry_run (entry_reset e) l' = entry_run (entry_new sp) l'.
Proof. intros sp l l' e evs H. now rewrite (reset_new sp l e evs H). Qed.

Lemma restart_discoverer' : forall sps l l' es evs,
  disc_run (disc_new sps) l = Ok (es, evs) ->
  disc_run (disc_reset es) l' = disc_run (disc_new sps) l'.
Proof. intros sps l l' es evs H. now rewrite (disc_reset_new sps l es evs H). Qed.

Lemma lifetime' : forall u c cur n1 n2,
  lt_deliverable u cur (n1 ++ n2) -> ~ In (EvObjectCreated u c) (n1 ++ n2) ->
  exists st,
    lt_run (lt_new u c) (LStarted :: map LEvent cur ++ LCurrentFinished :: map LEvent n1) = LOk st /\
    (lt_ended st = true <-> aget (t_objs (trun t_empty (cur ++ n1))) u <> Some c).
Proof. exact lt_after_current'. Qed.

Lemma lifetime_current' : forall u c cur c1 c2 news,
  cur = c1 ++ c2 -> lt_deliverable u cur news ->
  exists st, lt_run (lt_new u c) (LStarted :: map LEvent c1) = LOk st /\
             (lt_ended st = true -> aget (t_objs (trun t_empty cur)) u <> Some c).
Proof. exact lt_during_current'. Qed.

Lemma lifetime_permanent' : forall u c n T,
  deliverable_from T n = true -> ~ In (EvObjectCreated u c) n ->
  aget (t_objs T) u <> Some c -> aget (t_objs (trun T n)) u <> Some c.
Proof. exact lt_permanent'. Qed.

Lemma wait' : forall sp l, deliverable l ->
  (find_object sp l = Ok None /\
   forall l1 l2, l = l1 ++ l2 -> forall u c, matchingb (trun t_empty l1) sp u c = false) \/
  (exists l1 ev rest u c ids,
     l = l1 ++ ev :: rest /\ find_object sp l = Ok (Some (u, c, ids)) /\
     (forall l0 l0', l1 = l0 ++ l0' -> forall u' c', matchingb (trun t_empty l0) sp u' c' = false) /\
     matchingb (trun t_empty (l1 ++ [ev])) sp u c = true /\
     Forall2 (fun s p => fst p = c /\ sget (t_svcs (trun t_empty (l1 ++ [ev]))) u s = Some p)
             (sp_svcs sp) ids).
Proof. exact find_object_ok. Qed.

Lemma find' : forall sp cur, deliverable cur -> forallb is_creation cur = true ->
  (find_object sp cur = Ok None /\ forall u c, matchingb (trun t_empty cur) sp u c = false) \/
  (exists u c ids, find_object sp cur = Ok (Some (u, c, ids)) /\
     matchingb (trun t_empty cur) sp u c = true /\
     Forall2 (fun s p => fst p = c /\ sget (t_svcs (trun t_empty cur)) u s = Some p) (sp_svcs sp) ids).
Proof. exact find_current_ok. Qed.
