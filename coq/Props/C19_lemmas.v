(* Props/C19_lemmas.v — the statements of Props/C19.v assembled from ClientFold/*Proofs.v *)
From Coq Require Import List NArith Bool.
Import ListNotations.
From Aldrin Require Import ClientFold.Discoverer ClientFold.DiscovererProofs
  ClientFold.Lifetime ClientFold.LifetimeProofs.
Local Open Scope N_scope.

Lemma view' : forall sp l, deliverable l ->
  exists e,
    entry_run (entry_new sp) l = Ok (e, transitions t_empty l sp) /\
    (forall u c, In (u, c) (entry_iter e) <-> matchingb (trun t_empty l) sp u c = true) /\
    NoDup (map fst (entry_iter e)) /\
    (forall u c, matchingb (trun t_empty l) sp u c = true ->
       entry_object_id e u = Ok (Some c) /\
       exists ids, entry_service_ids e u (sp_svcs sp) = Ok (Some ids) /\
         Forall2 (fun s p => fst p = c /\ sget (t_svcs (trun t_empty l)) u s = Some p) (sp_svcs sp) ids).
Proof.
  intros sp l D. destruct (entry_run_ok sp l D) as (e & ER & I).
  exists e. split; auto. destruct (inv_view _ _ _ I) as [V1 V2]. split; auto. split; auto.
  intros u c M. split.
  - destruct (inv_object_id sp _ e u I (matching_opt _ _ _ _ M)) as (r & Er & Hr).
    rewrite Er. f_equal. now apply Hr.
  - now apply inv_service_ids.
Qed.

Lemma transitions_exact' : forall T ev sp u c,
  legalb T ev = true -> (u, c) <> ev_obj ev ->
  matchingb (tstep T ev) sp u c = matchingb T sp u c.
Proof. exact delta_frame. Qed.

Lemma discoverer' : forall sps l, deliverable l -> NoDup (map sp_key sps) ->
  exists es evs,
    disc_run (disc_new sps) l = Ok (es, evs) /\
    Forall2 (fun sp e => forall u c, In (u, c) (entry_iter e) <-> matchingb (trun t_empty l) sp u c = true) sps es /\
    forall sp, In sp sps ->
      filter (fun d => N.eqb (de_key d) (sp_key sp)) evs = transitions t_empty l sp.
Proof.
  intros sps l D ND.
  destruct (disc_run_ok_from sps l t_empty (disc_new sps) D (disc_new_inv sps)) as (es & ER & F).
  exists es, (dtransitions t_empty l sps). split; auto. split.
  - eapply Forall2_imp; [|exact F]. intros sp e I. now apply inv_view.
  - intros sp HI. now apply dtransitions_key.
Qed.

Lemma restart' : forall sp l l' e evs,
  entry_run (entry_new sp) l = Ok (e, evs) ->
  entry_run (entry_reset e) l' = entry_run (entry_new sp) l'.
Proof. intros sp l l' e evs H. now rewrite (reset_new sp l e evs H). Qed.

Lemma restart_discoverer' : forall sps l l' es evs,
  disc_run (disc_new sps) l = Ok (es, evs) ->
  disc_run (disc_reset es) l' = disc_run (disc_new sps) l'.
Proof. intros sps l l' es evs H. now rewrite (disc_reset_new sps l es evs H). Qed.

Lemma lifetime' : forall u c cur n1 n2,
  lt_deliverable u cur (n1 ++ n2) -> ~ In (EvObjectCreated u c) (n1 ++ n2) ->
  exists st,
    lt_run (lt_new u c) (LStarted :: map LEvent cur ++ LCurrentFinished :: map LEvent n1) = LOk st /\
    (lt_ended st = true <-> aget (t_objs (trun t_empty (cur ++ n1))) u <> Some c).
Proof. exact lt_after_current'. Qed.

Lemma lifetime_current' : forall u c cur c1 c2 news,
  cur = c1 ++ c2 -> lt_deliverable u cur news ->
  exists st, lt_run (lt_new u c) (LStarted :: map LEvent c1) = LOk st /\
             (lt_ended st = true -> aget (t_objs (trun t_empty cur)) u <> Some c).
Proof. exact lt_during_current'. Qed.

Lemma lifetime_permanent' : forall u c n T,
  deliverable_from T n = true -> ~ In (EvObjectCreated u c) n ->
  aget (t_objs T) u <> Some c -> aget (t_objs (trun T n)) u <> Some c.
Proof. exact lt_permanent'. Qed.

Lemma wait' : forall sp l, deliverable l ->
  (find_object sp l = Ok None /\
   forall l1 l2, l = l1 ++ l2 -> forall u c, matchingb (trun t_empty l1) sp u c = false) \/
  (exists l1 ev rest u c ids,
     l = l1 ++ ev :: rest /\ find_object sp l = Ok (Some (u, c, ids)) /\
     (forall l0 l0', l1 = l0 ++ l0' -> forall u' c', matchingb (trun t_empty l0) sp u' c' = false) /\
     matchingb (trun t_empty (l1 ++ [ev])) sp u c = true /\
     Forall2 (fun s p => fst p = c /\ sget (t_svcs (trun t_empty (l1 ++ [ev]))) u s = Some p)
             (sp_svcs sp) ids).
Proof. exact find_object_ok. Qed.

Lemma find' : forall sp cur, deliverable cur -> forallb is_creation cur = true ->
  (find_object sp cur = Ok None /\ forall u c, matchingb (trun t_empty cur) sp u c = false) \/
  (exists u c ids, find_object sp cur = Ok (Some (u, c, ids)) /\
     matchingb (trun t_empty cur) sp u c = true /\
     Forall2 (fun s p => fst p = c /\ sget (t_svcs (trun t_empty cur)) u s = Some p) (sp_svcs sp) ids).
Proof. exact find_current_ok. Qed.

(* ------------------------------------------------------------------ against the whole bus *)
From Aldrin Require Import ClientFold.Bus ClientFold.BusProofs ClientFold.LifetimeBusProofs.

Lemma deliverable_bus' : forall fs pre hist cur,
  bus_wf (pre ++ hist) -> snapshot_of fs (trun t_empty pre) cur ->
  deliverable (delivered fs cur hist).
Proof. intros fs pre hist cur W S. now destruct (delivered_ok fs pre hist cur W S). Qed.

Lemma view_bus' : forall fs pre hist cur sp,
  bus_wf (pre ++ hist) -> snapshot_of fs (trun t_empty pre) cur -> covers fs sp ->
  exists e snap,
    entry_run (entry_new sp) (delivered fs cur hist)
      = Ok (e, snap ++ bus_transitions (trun t_empty pre) hist sp) /\
    NoDup snap /\
    (forall d, In d snap <->
       exists u c, d = mkDev (sp_key sp) Created u c /\ bus_matchingb (trun t_empty pre) sp u c = true) /\
    (forall u c, In (u, c) (entry_iter e) <-> bus_matchingb (trun t_empty (pre ++ hist)) sp u c = true) /\
    NoDup (map fst (entry_iter e)) /\
    (forall u c, bus_matchingb (trun t_empty (pre ++ hist)) sp u c = true ->
       entry_object_id e u = Ok (Some c) /\
       exists ids, entry_service_ids e u (sp_svcs sp) = Ok (Some ids) /\
         Forall2 (fun s p => fst p = c /\ sget (t_svcs (trun t_empty (pre ++ hist))) u s = Some p)
                 (sp_svcs sp) ids).
Proof. exact view_bus. Qed.

Lemma bus_transitions_exact' : forall pre ev sp u c,
  bus_wf (pre ++ [ev]) -> (u, c) <> ev_obj ev ->
  bus_matchingb (trun t_empty (pre ++ [ev])) sp u c = bus_matchingb (trun t_empty pre) sp u c.
Proof.
  intros pre ev sp u c W NE. unfold bus_wf in W. rewrite bus_wf_app in W.
  apply andb_true_iff in W as [W1 W2]. cbn [bus_wf_from] in W2. rewrite andb_true_r in W2.
  rewrite trun_app. cbn [trun fold_left]. apply bus_delta_frame; auto.
  apply gwf_run; auto. apply gwf_empty.
Qed.

Lemma covers_discoverer' : forall sps sp, In sp sps -> covers (disc_filters (disc_new sps)) sp.
Proof. exact covers_discoverer. Qed.

Lemma wait_bus' : forall fs pre hist cur sp,
  bus_wf (pre ++ hist) -> snapshot_of fs (trun t_empty pre) cur -> covers fs sp ->
  (find_object sp (delivered fs cur hist) = Ok None /\
   forall h1 h2, hist = h1 ++ h2 ->
     forall u c, bus_matchingb (trun t_empty (pre ++ h1)) sp u c = false) \/
  (exists u c ids h1 h2,
     find_object sp (delivered fs cur hist) = Ok (Some (u, c, ids)) /\ hist = h1 ++ h2 /\
     bus_matchingb (trun t_empty (pre ++ h1)) sp u c = true /\
     Forall2 (fun s p => fst p = c /\ sget (t_svcs (trun t_empty (pre ++ h1))) u s = Some p)
             (sp_svcs sp) ids).
Proof. exact wait_bus. Qed.

Lemma find_bus' : forall fs pre cur sp,
  bus_wf pre -> snapshot_of fs (trun t_empty pre) cur -> covers fs sp ->
  (find_object sp cur = Ok None /\ forall u c, bus_matchingb (trun t_empty pre) sp u c = false) \/
  (exists u c ids,
     find_object sp cur = Ok (Some (u, c, ids)) /\
     bus_matchingb (trun t_empty pre) sp u c = true /\
     Forall2 (fun s p => fst p = c /\ sget (t_svcs (trun t_empty pre)) u s = Some p) (sp_svcs sp) ids).
Proof.
  intros fs pre cur sp W S C.
  assert (W' : bus_wf (pre ++ [])) by now rewrite app_nil_r.
  destruct (wait_bus fs pre [] cur sp W' S C) as [[F H]|(u & c & ids & h1 & h2 & F & E & M & I)];
    unfold delivered in F; cbn [filter] in F; rewrite app_nil_r in F.
  - left. split; auto. intros u c. specialize (H [] [] eq_refl u c). now rewrite app_nil_r in H.
  - right. symmetry in E. apply app_eq_nil in E as [-> ->]. rewrite app_nil_r in *. eauto 10.
Qed.

Lemma lifetime_bus' : forall u c pre h1 h2 cur,
  bus_wf (pre ++ h1 ++ h2) -> snapshot_of [FObject (Some u)] (trun t_empty pre) cur ->
  memb c (t_used_o (trun t_empty pre)) = true ->
  exists st,
    lt_run (lt_new u c) (lt_stream cur (filter (matches_filters [FObject (Some u)]) h1)) = LOk st /\
    (lt_ended st = true <-> aget (t_objs (trun t_empty (pre ++ h1))) u <> Some c) /\
    (lt_ended st = true -> aget (t_objs (trun t_empty (pre ++ h1 ++ h2))) u <> Some c).
Proof. exact lifetime_bus. Qed.

(* ------------------------------------------------------------------ the listener's bookkeeping *)
From Aldrin Require Import ClientFold.Listener ClientFold.ListenerProofs.

Lemma listener_current' : forall alive cur rest,
  l_drain (S (length cur)) alive (l_start l_new SCurrent)
          (BStarted SCurrent :: map BEvent cur ++ BCurrentFinished :: rest)
  = (cur, mkL (Some SCurrent) 0 0 0 false, rest, PNone).
Proof. exact drain_current. Qed.

Lemma listener_all' : forall cur news,
  l_drain (S (length cur + length news)) true (l_start l_new SAll)
          (BStarted SAll :: map BEvent cur ++ BCurrentFinished :: map BEvent news)
  = (cur ++ news, mkL (Some SAll) 0 0 0 false, [], PPending).
Proof. exact drain_all. Qed.

Lemma listener_stop' : forall alive evs rest,
  l_drain (S (length evs)) alive (l_stop (mkL (Some SAll) 0 0 0 false)) (map BEvent evs ++ BStopped :: rest)
  = (evs, l_new, rest, PNone).
Proof. exact drain_stop. Qed.
