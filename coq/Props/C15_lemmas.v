(* Props/C15_lemmas.v — the C15 statements in the form Props/C15.v exposes them, derived from
   Proto/ClientLifeProofs.v. *)
From Coq Require Import NArith ZArith List Bool Lia.
From Aldrin Require Import Proto.ClientLife Proto.ClientLifeProofs.
Import ListNotations.
Open Scope N_scope.

Lemma run_app s a b : run s (a ++ b) = run (run s a) b.
Proof. unfold run. apply fold_left_app. Qed.

(* a transport fault at ANY position of ANY input sequence, from ANY state *)
Lemma returns_fault : forall s0 pre a post e,
  is_done (run s0 pre) = false -> enabled (run s0 pre) a = true -> fault_of a = Some e ->
  phase (run s0 (pre ++ a :: post)) = Done (Some (ETransport e)) /\
  resolved (run s0 (pre ++ [a])) = map (fun w => (w, Dropped)) (pend (run s0 pre)) ++ resolved (run s0 pre).
Proof.
  intros s0 pre a post e D En F. split.
  - rewrite run_app. cbn [run fold_left]. fold (run (step (run s0 pre) a) post).
    apply done_stable_run. now rewrite (fault_done _ _ _ D En F).
  - rewrite run_app. cbn [run fold_left]. now rewrite (fault_done _ _ _ D En F).
Qed.

Lemma returns_clean_at : forall s0 pre a w post,
  wf s0 -> phase (run s0 pre) = Running -> clean_cause (run s0 pre) a = Some w ->
  no_fault post ->
  (w = true -> existsb is_shutdown_msg post = true) ->
  existsb is_flushed_ok post = true ->
  phase (run s0 (pre ++ a :: post)) = Done None.
Proof.
  intros s0 pre a w post W P C NF HS HF. rewrite run_app.
  apply (returns_clean _ a w post P (wf_run pre s0 W) C NF HS HF).
Qed.

(* after a clean cause: still draining while something is awaited, and never any other error *)
Lemma clean_waits : forall s0 pre a w post,
  wf s0 -> phase (run s0 pre) = Running -> clean_cause (run s0 pre) a = Some w ->
  no_fault post ->
  (w && negb (existsb is_shutdown_msg post)) || negb (existsb is_flushed_ok post) = true ->
  exists w', phase (run s0 (pre ++ a :: post)) = Draining w'.
Proof.
  intros s0 pre a w post W P C NF H. rewrite run_app. cbn [run fold_left].
  fold (run (step (run s0 pre) a) post).
  destruct (clean_cause_step _ a w P C) as [P' F'].
  apply (drain_waits post _ w P'); auto.
  - rewrite F'. apply orb_true_r.
  - now rewrite F'.
Qed.

Lemma clean_result : forall s0 pre a w post r,
  phase (run s0 pre) = Running -> clean_cause (run s0 pre) a = Some w ->
  phase (run s0 (pre ++ a :: post)) = Done r ->
  r = None \/ exists e, r = Some (ETransport e).
Proof.
  intros s0 pre a w post r P C H. rewrite run_app in H. cbn [run fold_left] in H.
  fold (run (step (run s0 pre) a) post) in H.
  destruct (clean_cause_step _ a w P C) as [P' _].
  apply (draining_result post _ w r P' H).
Qed.

(* ownership *)
Lemma no_orphan : forall v ins,
  let s := run (init v) ins in
  (forall w, count_occ N.eq_dec (qws (queue s) ++ mws (maps s) ++ map fst (resolved s)) w
             = if w <? nextw s then 1%nat else 0%nat) /\
  (forall r, phase s = Done r ->
     maps s = [] /\ queue s = [] /\
     forall w, w < nextw s -> count_occ N.eq_dec (map fst (resolved s)) w = 1%nat).
Proof.
  intros v ins s. split; [apply partition_run|].
  intros r P. pose proof (wf_run ins (init v) (wf_init v)) as W. fold s in W.
  unfold wf in W. rewrite P in W. destruct W as [M Q]. repeat split; auto.
  intros w Hw. pose proof (partition_run v ins w) as H. cbn zeta in H. fold s in H.
  rewrite M, Q in H. cbn [qws mws flat_map app] in H.
  apply N.ltb_lt in Hw. now rewrite Hw in H.
Qed.

(* a waiter that is pending at some point of a history has been resolved, exactly once, in every
   later state whose phase is Done *)
Lemma pending_resolved : forall v ins more w r,
  In w (pend (run (init v) ins)) ->
  phase (run (init v) (ins ++ more)) = Done r ->
  count_occ N.eq_dec (map fst (resolved (run (init v) (ins ++ more)))) w = 1%nat.
Proof.
  intros v ins more w r Hin P.
  assert (Hw : w < nextw (run (init v) ins)).
  { pose proof (partition_run v ins w) as H. cbn zeta in H.
    destruct (w <? nextw (run (init v) ins)) eqn:L; [now apply N.ltb_lt|].
    exfalso. unfold pend in Hin.
    assert (In w (qws (queue (run (init v) ins)) ++ mws (maps (run (init v) ins)) ++
                  map fst (resolved (run (init v) ins)))) as Hin'.
    { rewrite app_assoc. apply in_or_app. now left. }
    apply (count_occ_In N.eq_dec) in Hin'. lia. }
  destruct (no_orphan v (ins ++ more)) as [_ H]. destruct (H r P) as [_ [_ H3]].
  apply H3. rewrite run_app. pose proof (nextw_run more (run (init v) ins)). lia.
Qed.

Lemma stop_answers : forall v ins r q,
  phase (run (init v) ins) = Done r ->
  let s := run (init v) ins in
  let s' := step s (IEnqueue q) in
  phase s' = Done r /\ maps s' = [] /\ queue s' = [] /\
  (if has_reply q
   then resolved s' = (nextw s, Dropped) :: resolved s /\ nextw s' = nextw s + 1
   else s' = s).
Proof.
  intros v ins r q P. apply after_stop; auto. apply wf_run, wf_init.
Qed.

Lemma drop_on_return : forall r s,
  phase (finish r s) = Done r /\
  resolved (finish r s) = map (fun w => (w, Dropped)) (pend s) ++ resolved s.
Proof. intros r s. split; [apply finish_phase|apply finish_resolved]. Qed.

(* hypotheses are satisfiable: three short histories *)
Definition h_requested : list input :=
  [IEnqueue QHandleCloned; ISelHandle; IEnqueue QCreateObject; ISelHandle; IEnqueue QShutdown; ISelHandle;
   ISelFlushed None; ISelTransport (TMsg MsgShutdown)].
Definition h_fault : list input :=
  [IEnqueue QHandleCloned; ISelHandle; IEnqueue QSyncBroker; IEnqueue (QCallFunction true); ISelHandle;
   ISelTransport (TErr 7); IEnqueue QSyncClient].
