(* Props/C07_lemmas.v — top-level corollaries used by Props/C07.v *)
From Aldrin Require Import Codec.Base Codec.BaseProofs Codec.Value Codec.De Codec.Skip
  Codec.DeProofs Codec.RoundTrip Codec.SkipProofs Codec.Frame Props.C01_lemmas.
From Coq Require Import ZifyBool ZifyNat ZifyN.
Open Scope N_scope.

Lemma split_redecode b v r : de_value true b = Ok (v, r) ->
  exists p, split_off b = Ok (p, r) /\ b = p ++ r /\ de_value true p = Ok (v, []).
Proof.
  intros H. destruct (de_value_prefix _ _ _ _ H) as (p & -> & Hp). exists p.
  split; [|split; [reflexivity|exact Hp]].
  unfold split_off, value_len. rewrite (skip_agrees _ _ _ H). cbn [bind].
  rewrite lenN_app. replace (lenN p + lenN r - lenN r) with (lenN p) by lia.
  unfold lenN. rewrite Nat2N.id, firstn_app, Nat.sub_diag, firstn_all, skipn_app, Nat.sub_diag, skipn_all.
  cbn. rewrite app_nil_r. reflexivity.
Qed.

Lemma peek_kind_first b k : peek_kind b = Ok k -> exists r, b = kind_byte k :: r.
Proof.
  unfold peek_kind. destruct (_ <? _)%nat; [discriminate|]. destruct b as [|x r]; [discriminate|].
  destruct (kind_of_byte x) as [kd|] eqn:E; [|discriminate]. intros H; inversion H; subst.
  exists r. f_equal. apply kind_of_byte_inv. exact E.
Qed.

Lemma totals b : de_value true b <> Err Fuel /\ skip_value b <> Err Fuel.
Proof. split; [apply de_value_total|apply skip_total]. Qed.

Lemma validating_subset b v r : de_value true b = Ok (v, r) -> de_value false b = Ok (v, r).
Proof. unfold de_value. apply de_true_false. Qed.

(* the witness of the defect repaired by /repo commit "fix: KeyTagImpl::skip ..." now behaves *)
Example former_witness_ok :
  de_value true [57;1;255;44;1;0] = Ok (VSet (KInt U16) [KeyZ 300], []) /\
  skip_value [57;1;255;44;1;0] = Ok [].
Proof. split; vm_compute; reflexivity. Qed.

(* ---------- additions: the skip walker and split_off never return more than they were given ---------- *)
From Aldrin Require Import Codec.Utf8Converse.

Lemma skip_bounded b r : skip_value b = Ok r -> exists p, b = p ++ r /\ p <> [].
Proof.
  intros H. apply skip_exact in H as [v H]. pose proof H as H0.
  destruct (de_value_prefix _ _ _ _ H) as (p & -> & _). exists p. split; [reflexivity|].
  unfold de_value in H0. apply de_consumes in H0. intros ->. cbn [app] in H0. lia.
Qed.

Lemma value_len_bounded b n : value_len b = Ok n -> 1 <= n <= lenN b.
Proof.
  unfold value_len. destruct (skip_value b) as [r|] eqn:E; cbn [bind]; [|discriminate].
  destruct (skip_bounded _ _ E) as (p & -> & Hp). intros H. apply Ok_inj in H. subst n.
  rewrite lenN_app. destruct p; [contradiction|]. rewrite lenN_cons. lia.
Qed.

Lemma split_bounded b p r : split_off b = Ok (p, r) ->
  b = p ++ r /\ p <> [] /\ skip_value b = Ok r /\ lenN p <= lenN b.
Proof.
  unfold split_off, value_len. destruct (skip_value b) as [r0|] eqn:E; cbn [bind]; [|discriminate].
  destruct (skip_bounded _ _ E) as (p0 & -> & Hp). rewrite lenN_app.
  replace (lenN p0 + lenN r0 - lenN r0) with (lenN p0) by lia.
  unfold lenN at 1 2. rewrite Nat2N.id, firstn_app, Nat.sub_diag, firstn_all, skipn_app, Nat.sub_diag, skipn_all.
  cbn [firstn skipn app]. rewrite app_nil_r. intros H. apply Ok_inj in H. inversion H; subst.
  repeat split; auto. lia.
Qed.
