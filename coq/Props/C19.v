(* Props/C19.v — discovery and lifetimes converge.

   Models: ClientFold/Discoverer.v (the four entry kinds of aldrin/src/discoverer/*.rs: any object
   without / with services, specific object with / without services; their handle_event folds
   with every debug_assert as a Panic outcome, the entry's view, restart, Handle::find_object /
   wait_for_object), ClientFold/Lifetime.v (Lifetime::poll_ended), ClientFold/Bus.v (a
   well-formed history of the whole bus, a listener's filters, the snapshot of a start).

   Two layers.
   * "what a listener is handed": [l] ranges over ALL [deliverable] sequences of bus events (the
     guarantees of one listener's stream that survive any filter set: an object UUID is created
     only while free and with a fresh cookie, destroyed only while alive and after its visible
     services; a service slot likewise, and all alive services of one object UUID name the same
     object cookie).  [trun t_empty l] is what exists according to that same sequence,
     [matchingb T sp u c]: object (u, c) matches entry [sp] and all its required services are
     alive; [transitions T l sp]: the created/destroyed transitions of that set along [l].
   * "the whole bus": [pre ++ hist] ranges over ALL well-formed bus histories ([bus_wf]: objects
     before their services, services destroyed before their object, cookies never reused, ...),
     [fs] over all filter sets, [cur] over every order of the snapshot the broker sends when the
     listener is started after [pre]; the listener is handed [delivered fs cur hist].
     [bus_matchingb T sp u c]: the object EXISTS on the bus, matches the entry and carries all
     required services; the theorems then speak about the bus itself.
   Schedules (which task runs when) are not modelled: a fold consumes what has been delivered;
   the harness explores schedules (exploration, not proof). *)
From Coq Require Import List NArith Bool.
Import ListNotations.
From Aldrin Require Import ClientFold.Discoverer ClientFold.Lifetime ClientFold.Bus ClientFold.Listener
  ClientFold.Tie Props.C19_lemmas.
Local Open Scope N_scope.

(* ---------------- the discoverer's view, on any deliverable sequence ---------------- *)

(* no debug_assert fires (the fold answers Ok), the emitted events are exactly the transitions in
   order, the entry holds exactly the matching objects with their current cookies (each UUID
   once), object_id and service_ids answer the current ids *)
Theorem C19_view : forall sp l, deliverable l ->
  exists e,
    entry_run (entry_new sp) l = Ok (e, transitions t_empty l sp) /\
    (forall u c, In (u, c) (entry_iter e) <-> matchingb (trun t_empty l) sp u c = true) /\
    NoDup (map fst (entry_iter e)) /\
    (forall u c, matchingb (trun t_empty l) sp u c = true ->
       entry_object_id e u = Ok (Some c) /\
       exists ids, entry_service_ids e u (sp_svcs sp) = Ok (Some ids) /\
         Forall2 (fun s p => fst p = c /\ sget (t_svcs (trun t_empty l)) u s = Some p) (sp_svcs sp) ids).
Proof. exact view'. Qed.
Print Assumptions C19_view.

(* [transitions] misses nothing: a bus event changes the matching set at most at its own object *)
Theorem C19_transitions_exact : forall T ev sp u c,
  legalb T ev = true -> (u, c) <> ev_obj ev ->
  matchingb (tstep T ev) sp u c = matchingb T sp u c.
Proof. exact transitions_exact'. Qed.
Print Assumptions C19_transitions_exact.

(* a Discoverer with several entries (distinct keys): every entry has its view, and the event
   queue restricted to one key is that entry's transitions in order *)
Theorem C19_view_discoverer : forall sps l, deliverable l -> NoDup (map sp_key sps) ->
  exists es evs,
    disc_run (disc_new sps) l = Ok (es, evs) /\
    Forall2 (fun sp e => forall u c, In (u, c) (entry_iter e) <-> matchingb (trun t_empty l) sp u c = true) sps es /\
    forall sp, In sp sps ->
      filter (fun d => N.eqb (de_key d) (sp_key sp)) evs = transitions t_empty l sp.
Proof. exact discoverer'. Qed.
Print Assumptions C19_view_discoverer.

(* ---------------- the same against the whole bus ---------------- *)

(* what a listener is handed is deliverable *)
Theorem C19_deliverable : forall fs pre hist cur,
  bus_wf (pre ++ hist) -> snapshot_of fs (trun t_empty pre) cur ->
  deliverable (delivered fs cur hist).
Proof. exact deliverable_bus'. Qed.
Print Assumptions C19_deliverable.

(* an entry whose filters the listener carries: it emits one Created per object that matched
   when the listener started (each once) and then exactly the transitions of the bus; its view is
   exactly the objects that exist now, match and carry all required services, under their
   current ids *)
Theorem C19_view_bus : forall fs pre hist cur sp,
  bus_wf (pre ++ hist) -> snapshot_of fs (trun t_empty pre) cur -> covers fs sp ->
  exists e snap,
    entry_run (entry_new sp) (delivered fs cur hist)
      = Ok (e, snap ++ bus_transitions (trun t_empty pre) hist sp) /\
    NoDup snap /\
    (forall d, In d snap <->
       exists u c, d = mkDev (sp_key sp) Created u c /\ bus_matchingb (trun t_empty pre) sp u c = true) /\
    (forall u c, In (u, c) (entry_iter e) <-> bus_matchingb (trun t_empty (pre ++ hist)) sp u c = true) /\
    NoDup (map fst (entry_iter e)) /\
    (forall u c, bus_matchingb (trun t_empty (pre ++ hist)) sp u c = true ->
       entry_object_id e u = Ok (Some c) /\
       exists ids, entry_service_ids e u (sp_svcs sp) = Ok (Some ids) /\
         Forall2 (fun s p => fst p = c /\ sget (t_svcs (trun t_empty (pre ++ hist))) u s = Some p)
                 (sp_svcs sp) ids).
Proof. exact view_bus'. Qed.
Print Assumptions C19_view_bus.

Theorem C19_bus_transitions_exact : forall pre ev sp u c,
  bus_wf (pre ++ [ev]) -> (u, c) <> ev_obj ev ->
  bus_matchingb (trun t_empty (pre ++ [ev])) sp u c = bus_matchingb (trun t_empty pre) sp u c.
Proof. exact bus_transitions_exact'. Qed.
Print Assumptions C19_bus_transitions_exact.

(* the listener of a Discoverer carries the filters of every one of its entries *)
Theorem C19_covers : forall sps sp, In sp sps -> covers (disc_filters (disc_new sps)) sp.
Proof. exact covers_discoverer'. Qed.
Print Assumptions C19_covers.

(* ---------------- restart ---------------- *)

(* whatever was folded before (and however much of it was consumed), restart + the replay of the
   current entities + what follows behaves as a fresh discoverer *)
Theorem C19_restart : forall sp l l' e evs,
  entry_run (entry_new sp) l = Ok (e, evs) ->
  entry_run (entry_reset e) l' = entry_run (entry_new sp) l'.
Proof. exact restart'. Qed.
Print Assumptions C19_restart.

Theorem C19_restart_discoverer : forall sps l l' es evs,
  disc_run (disc_new sps) l = Ok (es, evs) ->
  disc_run (disc_reset es) l' = disc_run (disc_new sps) l'.
Proof. exact restart_discoverer'. Qed.
Print Assumptions C19_restart_discoverer.

(* ---------------- lifetimes ---------------- *)

(* after the snapshot, at every point of the stream: no Panic, and the lifetime has ended exactly
   when its scope is not alive *)
Theorem C19_lifetime : forall u c cur n1 n2,
  lt_deliverable u cur (n1 ++ n2) -> ~ In (EvObjectCreated u c) (n1 ++ n2) ->
  exists st,
    lt_run (lt_new u c) (LStarted :: map LEvent cur ++ LCurrentFinished :: map LEvent n1) = LOk st /\
    (lt_ended st = true <-> aget (t_objs (trun t_empty (cur ++ n1))) u <> Some c).
Proof. exact lifetime'. Qed.
Print Assumptions C19_lifetime.

(* while still reading the snapshot it ends only if the snapshot shows another cookie *)
Theorem C19_lifetime_current : forall u c cur c1 c2 news,
  cur = c1 ++ c2 -> lt_deliverable u cur news ->
  exists st, lt_run (lt_new u c) (LStarted :: map LEvent c1) = LOk st /\
             (lt_ended st = true -> aget (t_objs (trun t_empty cur)) u <> Some c).
Proof. exact lifetime_current'. Qed.
Print Assumptions C19_lifetime_current.

(* against the bus: the id came from a scope that had been created; [h1] has been consumed, [h2]
   happens later: ended <-> the scope is not alive now; and then it is not alive ever after *)
Theorem C19_lifetime_bus : forall u c pre h1 h2 cur,
  bus_wf (pre ++ h1 ++ h2) -> snapshot_of [FObject (Some u)] (trun t_empty pre) cur ->
  memb c (t_used_o (trun t_empty pre)) = true ->
  exists st,
    lt_run (lt_new u c) (lt_stream cur (filter (matches_filters [FObject (Some u)]) h1)) = LOk st /\
    (lt_ended st = true <-> aget (t_objs (trun t_empty (pre ++ h1))) u <> Some c) /\
    (lt_ended st = true -> aget (t_objs (trun t_empty (pre ++ h1 ++ h2))) u <> Some c).
Proof. exact lifetime_bus'. Qed.
Print Assumptions C19_lifetime_bus.

(* ---------------- find_object / wait_for_object ---------------- *)

(* wait_for_object: no Panic; the answer is an object that existed, matched and carried the
   answered service ids at some point [pre ++ h1] of the wait; no answer only if nothing matched
   at any point *)
Theorem C19_wait : forall fs pre hist cur sp,
  bus_wf (pre ++ hist) -> snapshot_of fs (trun t_empty pre) cur -> covers fs sp ->
  (find_object sp (delivered fs cur hist) = Ok None /\
   forall h1 h2, hist = h1 ++ h2 ->
     forall u c, bus_matchingb (trun t_empty (pre ++ h1)) sp u c = false) \/
  (exists u c ids h1 h2,
     find_object sp (delivered fs cur hist) = Ok (Some (u, c, ids)) /\ hist = h1 ++ h2 /\
     bus_matchingb (trun t_empty (pre ++ h1)) sp u c = true /\
     Forall2 (fun s p => fst p = c /\ sget (t_svcs (trun t_empty (pre ++ h1))) u s = Some p)
             (sp_svcs sp) ids).
Proof. exact wait_bus'. Qed.
Print Assumptions C19_wait.

(* find_object (snapshot only): None iff nothing matches on the bus at that moment *)
Theorem C19_find : forall fs pre cur sp,
  bus_wf pre -> snapshot_of fs (trun t_empty pre) cur -> covers fs sp ->
  (find_object sp cur = Ok None /\ forall u c, bus_matchingb (trun t_empty pre) sp u c = false) \/
  (exists u c ids,
     find_object sp cur = Ok (Some (u, c, ids)) /\
     bus_matchingb (trun t_empty pre) sp u c = true /\
     Forall2 (fun s p => fst p = c /\ sget (t_svcs (trun t_empty pre)) u s = Some p) (sp_svcs sp) ids).
Proof. exact find_bus'. Qed.
Print Assumptions C19_find.

(* ---------------- the listener's pending_* bookkeeping (bus_listener.rs) ---------------- *)

(* what the client queued is what poll_next_event hands over: a listener started with scope
   Current (find_object) yields exactly the snapshot and then None, leaving the rest of the queue
   alone; started with scope All (Discoverer, wait_for_object) it yields the snapshot and then the
   new events and is then Pending (never None, no counter underflow); after stop() it yields what
   was queued before `Stopped`, then None, and is back in its initial state *)
Theorem C19_listener_current : forall alive cur rest,
  l_drain (S (length cur)) alive (l_start l_new SCurrent)
          (BStarted SCurrent :: map BEvent cur ++ BCurrentFinished :: rest)
  = (cur, mkL (Some SCurrent) 0 0 0 false, rest, PNone).
Proof. exact listener_current'. Qed.
Print Assumptions C19_listener_current.

Theorem C19_listener_all : forall cur news,
  l_drain (S (length cur + length news)) true (l_start l_new SAll)
          (BStarted SAll :: map BEvent cur ++ BCurrentFinished :: map BEvent news)
  = (cur ++ news, mkL (Some SAll) 0 0 0 false, [], PPending).
Proof. exact listener_all'. Qed.
Print Assumptions C19_listener_all.

Theorem C19_listener_stop : forall alive evs rest,
  l_drain (S (length evs)) alive (l_stop (mkL (Some SAll) 0 0 0 false)) (map BEvent evs ++ BStopped :: rest)
  = (evs, l_new, rest, PNone).
Proof. exact listener_stop'. Qed.
Print Assumptions C19_listener_stop.

(* ---------------- the hypotheses are satisfiable; the folds compute ---------------- *)

(* object 1 is created (cookie 100), gets services 11 and 12, loses 11, is destroyed and
   re-created under the same UUID with a new cookie *)
Definition ex_hist : list bus_event :=
  [EvObjectCreated 1 100; EvServiceCreated 1 100 11 101; EvServiceCreated 1 100 12 102;
   EvServiceDestroyed 1 100 11 101; EvServiceDestroyed 1 100 12 102; EvObjectDestroyed 1 100;
   EvObjectCreated 1 103; EvServiceCreated 1 103 11 104; EvServiceCreated 1 103 12 105].

Example ex_bus_wf : bus_wf ex_hist.
Proof. reflexivity. Qed.
Example ex_deliverable : deliverable ex_hist.
Proof. reflexivity. Qed.
(* a listener with service filters only sees no object events: still deliverable *)
Example ex_deliverable_services_only :
  deliverable (filter (matches_filters [FService None (Some 11); FService None (Some 12)]) ex_hist).
Proof. reflexivity. Qed.
Example ex_any_with_services :
  entry_run (entry_new (mkSpec 7 None [11; 12])) ex_hist =
  Ok (EAny 7 [(11, [(1, 104)]); (12, [(1, 105)])] [(1, 103)],
      [mkDev 7 Created 1 100; mkDev 7 Destroyed 1 100; mkDev 7 Created 1 103]).
Proof. reflexivity. Qed.
Example ex_snapshot : snapshot_of [FObject None] (trun t_empty (firstn 3 ex_hist)) [EvObjectCreated 1 100].
Proof.
  exists [(1, 100)], []. split; [reflexivity|]. split; [repeat constructor; intros []|].
  split; [constructor|]. split.
  - intros u c. cbn. split.
    + intros [[= <- <-]|[]]. auto.
    + intros [H _]. destruct (N.eqb 1 u) eqn:E; [|discriminate].
      apply N.eqb_eq in E. subst. injection H as <-. now left.
  - intros ou oc su sc. cbn. split; [intros []|intros [_ H]; discriminate].
Qed.
Example ex_not_deliverable : deliverableb [EvObjectCreated 1 100; EvObjectCreated 1 101] = false.
Proof. reflexivity. Qed.
Example ex_lifetime :
  lt_run (lt_new 1 100) (lt_stream [EvObjectCreated 1 100] [EvObjectDestroyed 1 100]) =
  LOk (mkLt 1 100 true true).
Proof. reflexivity. Qed.
