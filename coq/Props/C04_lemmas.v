(* Props/C04_lemmas.v — concrete small histories on which the hypotheses of the C04 theorems are
   checked to be satisfiable (by computation); the proofs themselves are in Broker/EventProofs.v *)
From stdpp Require Import gmap list.
From RecordUpdate Require Import RecordSet.
Import RecordSetNotations.
From Aldrin Require Import gen.BrokerConsts Broker.Model Broker.Run Broker.OutKinds Broker.EventProofs.
Local Open Scope N_scope.

Definition inp (e : event) (f : uuid) (b : option N) : input := {| i_ev := e; i_fresh := f; i_bserial := b |}.
Definition state_after (h : list input) : state :=
  match run init h with Done (s, _) | Fail (s, _) => s | Panic _ => init end.
Definition outs_after (h : list input) : list (list out) :=
  match run init h with Done (_, o) | Fail (_, o) => o | Panic _ => [] end.
Definition get_conn (s : state) (c : conn) : cstate :=
  default {| cs_ver := 0; cs_alive := false; cs_calls := ∅ |} (conns s !! c).
Definition get_svc (s : state) (k : uuid * uuid) : svc :=
  default {| s_cookie := 0; s_obj_cookie := 0; s_info := {| i_version := 0; i_type_id := None; i_sub_all := None |};
             s_events := ∅; s_all := ∅; s_subs := ∅; s_calls := ∅ |} (svcs s !! k).

(* connection 1 (version 20) owns object 100 (cookie 1000) with service 200 (cookie 1001, supports
   subscribe-all); connections 2, 3 (version 20) and 4 (version 14) are clients *)
Definition h_base : list input := [
  inp (NewConnection 1 20) 0 None; inp (NewConnection 2 20) 0 None; inp (NewConnection 3 20) 0 None;
  inp (NewConnection 4 14) 0 None;
  inp (Message 1 (CreateObject 0 100)) 1000 None;
  inp (Message 1 (CreateService2 1 1000 200 (Some {| i_version := 1; i_type_id := None; i_sub_all := Some true |}))) 1001 None ].

(* 2 and 4 subscribe to event 7, 3 subscribes to all events, 4 subscribes to the service *)
Definition h_subs : list input := h_base ++ [
  inp (Message 2 (SubscribeEvent (Some 5) 1001 7)) 0 None;
  inp (Message 4 (SubscribeEvent (Some 5) 1001 7)) 0 None;
  inp (Message 3 (SubscribeAllEvents (Some 6) 1001)) 0 None;
  inp (Message 3 (SubscribeService 8 1001)) 0 None ].

(* the owner is told on the first subscription only *)
Example subscribe_run :
  drop 6 (outs_after h_subs) =
  [ [(2, SubscribeEventReply 5 true, None); (1, SubscribeEvent None 1001 7, None)];
    [(4, SubscribeEventReply 5 true, None)];
    [(3, SubscribeAllEventsReply 6 SAOk, None); (1, SubscribeAllEvents None 1001, None)];
    [(3, SubscribeServiceReply 8 true, None)] ].
Proof. vm_compute. reflexivity. Qed.

Example fanout_sat :
  let s := state_after h_subs in
  let sv := get_svc s (100, 200) in
  conns s !! 1 = Some (get_conn s 1) /\ svc_by_cookie s 1001 = Some ((100, 200), sv) /\
  owner_of_svc s (100, 200) = Some 1 /\
  elements (event_targets sv 7) = [3; 2; 4] /\ elements (event_targets sv 8) = [3] /\
  (forall x, x ∈ event_targets sv 7 -> alive s x = true).
Proof.
  cbv zeta. do 5 (split; [vm_compute; reflexivity|]).
  intros x Hx. apply elem_of_elements, elem_of_list_In in Hx. vm_compute in Hx.
  destruct Hx as [<-|[<-|[<-|[]]]]; vm_compute; reflexivity.
Qed.

(* emitting event 7, event 8, and an emit by a non-owner *)
Example emit_run :
  drop 10 (outs_after (h_subs ++ [
    inp (Message 1 (EmitEvent 1001 7 42)) 0 None;
    inp (Message 1 (EmitEvent 1001 8 43)) 0 None;
    inp (Message 2 (EmitEvent 1001 7 44)) 0 None ])) =
  [ [(3, EmitEvent 1001 7 42, Some 20); (2, EmitEvent 1001 7 42, Some 20); (4, EmitEvent 1001 7 42, Some 20)];
    [(3, EmitEvent 1001 8 43, Some 20)];
    [] ].
Proof. vm_compute. reflexivity. Qed.

(* unsubscribing: the owner is told when the last subscriber of event 7 leaves; the disconnect of
   the only all-events subscriber tells the owner to stop all events *)
Example unsubscribe_run :
  drop 10 (outs_after (h_subs ++ [
    inp (Message 2 (UnsubscribeEvent 1001 7)) 0 None;
    inp (Message 4 (UnsubscribeEvent 1001 7)) 0 None;
    inp (ConnectionShutdown 3) 0 None ])) =
  [ []; [(1, UnsubscribeEvent 1001 7, None)]; [(1, UnsubscribeAllEvents None 1001, None)] ].
Proof. vm_compute. reflexivity. Qed.

(* the last subscriber of event 7 disconnects while another is subscribed to all events *)
Example disconnect_run :
  drop 10 (outs_after (h_subs ++ [
    inp (Message 2 (UnsubscribeEvent 1001 7)) 0 None;
    inp (ConnectionShutdown 4) 0 None ])) =
  [ []; [(1, UnsubscribeEvent 1001 7, None)] ].
Proof. vm_compute. reflexivity. Qed.

(* destroying the service: the event subscribers (2, 4) and the service subscriber (3) are told *)
Example destroy_run :
  drop 10 (outs_after (h_subs ++ [ inp (Message 1 (DestroyService 9 1001)) 0 None ])) =
  [ [(1, DestroyServiceReply 9 R3Ok, None); (3, ServiceDestroyed 1001, None);
     (2, ServiceDestroyed 1001, None); (4, ServiceDestroyed 1001, None)] ].
Proof. vm_compute. reflexivity. Qed.

Example subscribe_event_sat :
  let s := state_after h_base in
  conns s !! 2 = Some (get_conn s 2) /\ cs_alive (get_conn s 2) = true /\
  svc_by_cookie s 1001 = Some ((100, 200), get_svc s (100, 200)) /\ owner_of_svc s (100, 200) = Some 1.
Proof. cbv zeta. repeat split; vm_compute; reflexivity. Qed.

Example subscribe_all_sat :
  let s := state_after h_base in
  conns s !! 3 = Some (get_conn s 3) /\ cs_alive (get_conn s 3) = true /\ 18 <= cs_ver (get_conn s 3) /\
  svc_by_cookie s 1001 = Some ((100, 200), get_svc s (100, 200)) /\ owner_of_svc s (100, 200) = Some 1 /\
  conns s !! 1 = Some (get_conn s 1) /\ i_sub_all (s_info (get_svc s (100, 200))) = Some true /\
  18 <= cs_ver (get_conn s 1).
Proof. cbv zeta. repeat split; try (vm_compute; reflexivity); vm_compute; discriminate. Qed.
