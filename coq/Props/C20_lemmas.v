(* Props/C20_lemmas.v — witnesses for Props/C20.v: a recursive family that satisfies the
   hypotheses, a re-documented / re-ordered copy of it, and a family that is NOT coherent (two
   types claim the same schema and name) on which the order of visiting references changes the
   hashed bytes — the reason [coherent] is a hypothesis. *)
From Aldrin Require Import Codec.BaseProofs Codec.RoundTrip
  Intro.Ir Intro.IrProofs Intro.Canon Intro.CanonProofs Intro.CanonWf Intro.CanonInj Intro.TypeId
  Intro.ClosureProofs Intro.TypeIdProofs Intro.RecordProofs.
From Coq Require Import Permutation.
Open Scope N_scope.

Definition u (b : N) : uuid := repeat b 16.
Definition s_sch : str := [115; 99; 104].      (* "sch" *)
Definition s_node : str := [78; 111; 100; 101]. (* "Node" *)
Definition s_next : str := [110; 101; 120; 116]. (* "next" *)
Definition s_val : str := [118; 97; 108].        (* "val" *)

(* struct sch::Node { required val @ 1 : u8, next @ 2 : Option<Node> } — recursive through Option *)
Inductive T3 := TNode | TOpt | TU8.
Definition node_layout (d1 d2 : doc) (order : bool) : layout uuid :=
  let f1 := mkField 1 s_val d1 true (u 8) in
  let f2 := mkField 2 s_next d2 false (u 7) in
  LStruct (build_struct s_sch s_node d1 (if order then [f1; f2] else [f2; f1]) None).
Definition lay3 (d1 d2 : doc) (order : bool) (t : T3) : layout uuid :=
  match t with
  | TNode => node_layout d1 d2 order
  | TOpt => LBuiltIn (BWrap WOption (u 9))
  | TU8 => LBuiltIn (BPrim PU8)
  end.
Definition refs3 (order : bool) (t : T3) : list T3 :=
  match t with
  | TNode => if order then [TU8; TOpt] else [TOpt; TOpt; TU8]
  | TOpt => [TNode]
  | TU8 => []
  end.
Definition ex_univ : univ := mkUniv T3 (lay3 None None true) (refs3 true) TNode.
(* the same family documented, with the fields added and the references pushed in another order
   (one of them twice) *)
Definition ex_univ' : univ := mkUniv T3 (lay3 (Some s_val) (Some s_next) false) (refs3 false) TNode.

Lemma ex_wf : well_formed ex_univ /\ well_formed ex_univ'.
Proof.
  assert (forall t, layout_ok (U_lay ex_univ t) = true) by (intros [| |]; reflexivity).
  assert (forall t, layout_ok (U_lay ex_univ' t) = true) by (intros [| |]; reflexivity).
  split; (split; [auto|intros t _; auto]).
Qed.

Lemma ex_coherent d1 d2 o ro : coherent (mkUniv T3 (lay3 d1 d2 o) (refs3 ro) TNode).
Proof.
  intros t1 t2 _ _ E t1' Hin. assert (t1 = t2) as <-.
  { destruct t1, t2; try reflexivity; destruct o; discriminate E. }
  exists t1'. split; [exact Hin|reflexivity].
Qed.

Lemma ex_wire_equal : wire_equal ex_univ ex_univ'.
Proof.
  assert (E : forall t, erase_doc (U_lay ex_univ t) = erase_doc (U_lay ex_univ' t)) by (intros [| |]; reflexivity).
  assert (R : forall t : T3, u_reach ex_univ t /\ u_reach ex_univ' t).
  { assert (Ha : u_reach ex_univ TOpt) by (apply reach_init; right; left; reflexivity).
    assert (Hb : u_reach ex_univ' TOpt) by (apply reach_init; left; reflexivity).
    intros [| |]; split.
    - eapply reach_step; [exact Ha|left; reflexivity].
    - eapply reach_step; [exact Hb|left; reflexivity].
    - exact Ha.
    - exact Hb.
    - apply reach_init; left; reflexivity.
    - apply reach_init; right; right; left; reflexivity. }
  split; [apply E|]. intros l. split; intros (t & _ & <-); exists t; (split; [apply R|]); [symmetry|]; apply E.
Qed.

(* both runs succeed and hash the same bytes (what the theorem predicts), in the code's order
   and in the reverse pop order *)
Lemma ex_bytes_equal :
  exists x, compute_bytes T3 (U_lay ex_univ) (U_refs ex_univ) (fun s => s) 10 TNode = Ok x /\
            compute_bytes T3 (U_lay ex_univ') (U_refs ex_univ') (fun s => s) 10 TNode = Ok x /\
            compute_bytes T3 (U_lay ex_univ') (U_refs ex_univ') (@rev T3) 10 TNode = Ok x.
Proof. eexists. split; [vm_compute; reflexivity|split; vm_compute; reflexivity]. Qed.

(* ---------- without coherence the order of visiting references matters ----------
   Two distinct types claim the name sch::Node with the same layout bytes but reference different
   element types (TA -> u8, TB -> bool); which of them is expanded depends on the pop order. *)
Inductive T5 := QRoot | QA | QB | QU8 | QBool.
Definition lay5 (t : T5) : layout uuid :=
  match t with
  | QRoot => LNewtype (mkNewtype s_sch s_next None (u 1))
  | QA | QB => LNewtype (mkNewtype s_sch s_node None (u 2))
  | QU8 => LBuiltIn (BPrim PU8)
  | QBool => LBuiltIn (BPrim PBool)
  end.
Definition refs5 (t : T5) : list T5 :=
  match t with QRoot => [QA; QB] | QA => [QU8] | QB => [QBool] | _ => [] end.

Lemma incoherent_order_matters :
  exists x y, compute_bytes T5 lay5 refs5 (fun s => s) 10 QRoot = Ok x /\
              compute_bytes T5 lay5 refs5 (@rev T5) 10 QRoot = Ok y /\ x <> y.
Proof. eexists. eexists. split; [vm_compute; reflexivity|split; [vm_compute; reflexivity|discriminate]]. Qed.

Lemma incoherent_not_coherent : ~ coherent (mkUniv T5 lay5 refs5 QRoot).
Proof.
  intros C.
  assert (Ra : u_reach (mkUniv T5 lay5 refs5 QRoot) QA) by (apply reach_init; left; reflexivity).
  assert (Rb : u_reach (mkUniv T5 lay5 refs5 QRoot) QB) by (apply reach_init; right; left; reflexivity).
  destruct (C QA QB Ra Rb eq_refl QU8 (or_introl eq_refl)) as (t & [<-|[]] & E). discriminate E.
Qed.

(* ---------- a record that satisfies the round-trip hypothesis ---------- *)
Definition ex_intro : intro :=
  mkIntro (u 42) (lay3 (Some s_val) None true TNode) [u 8; u 7].
Lemma ex_intro_ok : intro_ok ex_intro = true.
Proof. vm_compute. reflexivity. Qed.
