(* Props/C13_lemmas.v — top-level corollaries used by Props/C13.v *)
From Aldrin Require Import Codec.Base Codec.BaseProofs Codec.Value Codec.De Codec.Skip Codec.Convert
  gen.Consts gen.ConvConsts Codec.RoundTrip Codec.Frame Codec.SkipProofs Codec.ConvertProofs
  Codec.ConvertMeaning Codec.ConvertIdem Codec.DeProofs.
From Coq Require Import ZifyBool ZifyNat ZifyN.
Open Scope N_scope.
Arguments N.add : simpl never.
Arguments N.sub : simpl never.
Arguments N.mul : simpl never.
Arguments N.ltb : simpl never.
Arguments N.leb : simpl never.
Arguments N.eqb : simpl never.

Definition from_or_max (from : option version) : version :=
  match from with Some v => v | None => (1, 20) end.

Lemma from_or_max_ok from : (match from with Some v => v | None => CONV_MAX end) = from_or_max from.
Proof. destruct from; reflexivity. Qed.

Lemma convert_api_unfold from to b :
  convert_api from to b =
  (from_e <- epoch_of (from_or_max from) ;;
   to_e <- epoch_of to ;;
   if epoch_ltb to_e from_e then
     '(out, rest) <- conv_value b ;; match rest with [] => Ok out | _ => Err TrailingData end
   else Ok b).
Proof. unfold convert_api. rewrite from_or_max_ok. reflexivity. Qed.

(* ---------- meaning ---------- *)
Lemma meaning utf8 b v :
  bytes_ok b = true -> lenN b <= 4294967295 -> de_value utf8 b = Ok (v, []) ->
  exists b', conv_value b = Ok (b', []) /\ de_value utf8 b' = Ok (v, []).
Proof. apply conv_value_meaning. Qed.

(* ---------- no 1.20 container encodings ---------- *)
Lemma v1_only_skippable b : v1_only b = true -> skip_value b = Ok [].
Proof.
  unfold v1_only, skip_value. destruct (v1walk _ _ b) as [[[] [|x r]]|e] eqn:E; try discriminate.
  intros _. eapply v1walk_skip; eauto.
Qed.

Lemma v1_only_first b : v1_only b = true -> exists k r, b = k :: r /\ k <= 42.
Proof.
  unfold v1_only. cbn [v1walk]. unfold v1walk_body. destruct (_ <? _)%nat; [discriminate|].
  destruct b as [|k r]; [discriminate|]. destruct (kind_of_byte k) as [kd|] eqn:Hk; [|discriminate].
  intros H. exists k, r. split; [reflexivity|]. apply kind_of_byte_inv in Hk. subst k.
  destruct kd as [| | |i|f| |e|e|e kk|e kk|e|]; try (destruct e; [|discriminate]); cbn [kind_byte];
    try lia; try (destruct i; cbn; lia); try (destruct f; cbn; lia);
    destruct kk as [i| |]; try (destruct i); cbn; lia.
Qed.

(* ---------- failure ---------- *)
Lemma fails_only_if b e :
  conv_value b = Err e -> (forall v, de_value false b <> Ok (v, [])) \/ 4294967295 < lenN b.
Proof.
  intros H. destruct (N.leb_spec (lenN b) u32_max) as [Hl|Hl]; [left|right; exact Hl].
  intros v Hd. destruct (conv_accepts _ _ _ _ _ Hl Hd) as (out & Hc). unfold conv_value in H. congruence.
Qed.

Lemma trailing_only_if b out x rest :
  conv_value b = Ok (out, x :: rest) -> forall v, de_value false b <> Ok (v, []).
Proof.
  intros H v Hd. apply conv_ok_de in H as [v' H]. unfold de_value in Hd. rewrite H in Hd. discriminate.
Qed.

Lemma api_fails_only_if from to b e :
  convert_api from to b = Err e ->
  (epoch_of (from_or_max from) = Err InvalidVersion \/ epoch_of to = Err InvalidVersion) \/
  (forall v, de_value false b <> Ok (v, [])) \/ 4294967295 < lenN b.
Proof.
  rewrite convert_api_unfold.
  destruct (epoch_of (from_or_max from)) as [ef|e1] eqn:E1; cbn [bind];
    [|left; left; f_equal; eapply epoch_of_err; eauto].
  destruct (epoch_of to) as [et|e2] eqn:E2; cbn [bind];
    [|left; right; f_equal; eapply epoch_of_err; eauto].
  destruct (epoch_ltb et ef); [|discriminate]. right.
  destruct (conv_value b) as [[out rest]|e'] eqn:C; cbn [bind] in *.
  - destruct rest as [|x rest]; [discriminate|]. left. eapply trailing_only_if; eauto.
  - eapply fails_only_if; eauto.
Qed.

Lemma api_total from to b : convert_api from to b <> Err Fuel.
Proof.
  rewrite convert_api_unfold.
  destruct (epoch_of (from_or_max from)) as [ef|e1] eqn:E1; cbn [bind];
    [|apply epoch_of_err in E1; subst; discriminate].
  destruct (epoch_of to) as [et|e2] eqn:E2; cbn [bind]; [|apply epoch_of_err in E2; subst; discriminate].
  destruct (epoch_ltb et ef); [|discriminate].
  pose proof (conv_value_total b) as T.
  destruct (conv_value b) as [[out [|x rest]]|e'] eqn:C; cbn [bind]; try discriminate. congruence.
Qed.

Lemma accepts_exactly b : lenN b <= 4294967295 ->
  ((exists b', conv_value b = Ok (b', [])) <-> (exists v, de_value false b = Ok (v, []))).
Proof.
  intros Hl. split.
  - intros [b' H]. apply conv_ok_de in H. exact H.
  - intros [v H]. exact (conv_accepts _ _ _ _ _ Hl H).
Qed.

(* ---------- error kinds ---------- *)
Lemma error_kinds b e :
  conv_value b = Err e ->
  e = Overflow \/ exists e', de_value false b = Err e' /\ (e = e' \/ (e = Eoi /\ e' = Invalid)).
Proof. apply conv_err_de. Qed.

Lemma too_deep_iff b : lenN b <= 4294967295 ->
  (conv_value b = Err TooDeep <-> de_value false b = Err TooDeep).
Proof.
  intros Hl. split; intros H.
  - apply error_kinds in H as [H|(e' & D & [<-|[H _]])]; try discriminate. exact D.
  - unfold de_value in H. apply de_err_conv in H as (e & C & [->|[->|[_ H]]]); try discriminate.
    + apply conv_overflow in C. unfold u32_max in C. lia.
    + exact C.
Qed.

(* ---------- identity, versions ---------- *)
Lemma identity from to b ef et :
  epoch_of (from_or_max from) = Ok ef -> epoch_of to = Ok et -> epoch_ltb et ef = false ->
  convert_api from to b = Ok b.
Proof. intros E1 E2 L. rewrite convert_api_unfold, E1, E2. cbn [bind]. rewrite L. reflexivity. Qed.

Lemma invalid_version from to b :
  epoch_of (from_or_max from) = Err InvalidVersion \/ epoch_of to = Err InvalidVersion ->
  convert_api from to b = Err InvalidVersion.
Proof.
  intros H. rewrite convert_api_unfold.
  destruct (epoch_of (from_or_max from)) as [ef|e1] eqn:E1; cbn [bind].
  - destruct H as [H|H]; [discriminate|]. rewrite H. reflexivity.
  - f_equal. eapply epoch_of_err; eauto.
Qed.

Lemma epochs min :
  (14 <= min <= 19 -> epoch_of (1, min) = Ok E1) /\ epoch_of (1, 20) = Ok E2.
Proof.
  split; [|reflexivity]. intros H. rewrite epoch_of_spec.
  destruct (N.leb_spec 14 min), (N.leb_spec min 19); try lia. reflexivity.
Qed.

(* ---------- the property for the literal versions: any downgrade from 1.20 to 1.14..1.19 ---------- *)
Lemma downgrade from min b v :
  (from = None \/ from = Some (1, 20)) -> 14 <= min <= 19 ->
  bytes_ok b = true -> lenN b <= 4294967295 -> de_value true b = Ok (v, []) ->
  exists b', convert_api from (1, min) b = Ok b' /\ de_value true b' = Ok (v, []) /\
             v1_only b' = true /\ convert_api from (1, min) b' = Ok b'.
Proof.
  intros Hf Hm Hb Hl Hd.
  destruct (conv_value_meaning true b v Hb Hl Hd) as (b' & Hc & Hd').
  exists b'. rewrite !convert_api_unfold.
  assert (epoch_of (from_or_max from) = Ok E2) as -> by (destruct Hf as [-> | ->]; reflexivity).
  rewrite (proj1 (epochs min) Hm). cbn [bind epoch_ltb]. rewrite Hc. cbn [bind].
  split; [reflexivity|]. split; [exact Hd'|]. split; [eapply conv_value_v1_only; eauto|].
  rewrite (conv_value_idempotent _ _ Hb Hc). reflexivity.
Qed.

Lemma api_idempotent from to b b' :
  bytes_ok b = true -> convert_api from to b = Ok b' -> convert_api from to b' = Ok b'.
Proof.
  intros Hb. rewrite !convert_api_unfold.
  destruct (epoch_of (from_or_max from)) as [ef|e1]; cbn [bind]; [|discriminate].
  destruct (epoch_of to) as [et|e2]; cbn [bind]; [|discriminate].
  destruct (epoch_ltb et ef); [|intros H; apply Ok_inj in H; subst; reflexivity].
  destruct (conv_value b) as [[out [|x rest]]|e'] eqn:C; cbn [bind]; try discriminate.
  intros H. apply Ok_inj in H. subst out. rewrite (conv_value_idempotent _ _ Hb C). reflexivity.
Qed.

(* ---------- non-vacuity ---------- *)
(* Struct2 { 7: Vec2 [Bool(9 -> true), Bytes2 "ab" "c"], 300: U16Map1 { 5: None } }, mixed epochs,
   a non-canonical bool (9) and a non-canonical varint (254 5 for the u16 key 5) *)
Definition sample : list N :=
  [65; 1; 7; 43; 1; 2; 9; 1; 44; 2; 97; 98; 1; 99; 0; 0; 1; 253; 44; 1; 21; 1; 254; 5; 0; 0].
Definition sample_out : list N :=
  [39; 2; 7; 17; 2; 2; 1; 18; 3; 97; 98; 99; 253; 44; 1; 21; 1; 5; 0].
Definition sample_value : Value :=
  VStruct [(7, VVec [VBool true; VBytes [97; 98; 99]]); (300, VMap (KInt U16) [(KeyZ 5, VNone)])].

Example sample_ok :
  bytes_ok sample = true /\ lenN sample <= 4294967295 /\
  de_value true sample = Ok (sample_value, []) /\
  convert_api None (1, 14) sample = Ok sample_out /\
  de_value true sample_out = Ok (sample_value, []) /\
  v1_only sample_out = true /\ v1_only sample = false /\
  convert_api (Some (1, 20)) (1, 19) sample_out = Ok sample_out /\
  convert_api (Some (1, 19)) (1, 20) sample = Ok sample /\
  convert_api (Some (1, 13)) (1, 19) sample = Err InvalidVersion /\
  convert_api None (1, 21) sample = Err InvalidVersion /\
  convert_api None (1, 19) (sample ++ [0]) = Err TrailingData /\
  convert_api None (1, 19) [43; 1] = Err Eoi.
Proof. repeat split; try (vm_compute; reflexivity); vm_compute; discriminate. Qed.

(* why [bytes_ok] is a hypothesis: on a list with an element >= 256 a varint can decode to a value
   beyond its width, which is not re-encoded canonically (no Rust &[u8] is such a list) *)
Example bytes_hyp_needed :
  conv_value [7; 255; 0; 0; 0; 256] = Ok ([7; 255; 0; 0; 0; 0], []) /\
  conv_value [7; 255; 0; 0; 0; 0] = Ok ([7; 0], []).
Proof. split; vm_compute; reflexivity. Qed.
