(* Props/C05.v — Channels: in-order exactly-once delivery under capacity flow control.
   [chan_*] are the pure functions of broker/src/broker/channel.rs (Model.v), [handle] the broker's
   message handler, [crun_step] one operation (claim / send item / add capacity / close) on one
   channel with counters of forwarded items and granted capacity. *)
From stdpp Require Import gmap list.
From RecordUpdate Require Import RecordSet.
Import RecordSetNotations.
From Coq Require Import Lia.
From Aldrin Require Import gen.BrokerConsts Broker.Model Broker.ChannelProofs Broker.ChannelStep.
Local Open Scope N_scope.

(* for EVERY sequence of operations on a channel, by any connections: no unreachable!()/
   debug_assert! site of channel.rs is reached, the broker never forwards more items than the
   receiver granted (initial capacity + accepted grants), the stored channel stays well-formed
   (sender capacity <= receiver capacity <= u32::MAX, equal at or below the low-water mark 4) *)
Theorem C05_credit_all_sequences : forall c e ops, endc_ok e -> Forall op_ok ops ->
  crun_inv (fold_left crun_step ops (crun_init c e)).
Proof. exact channel_runs. Qed.
Print Assumptions C05_credit_all_sequences.

Theorem C05_forwarded_le_granted : forall c e ops, endc_ok e -> Forall op_ok ops ->
  let r := fold_left crun_step ops (crun_init c e) in
  cr_fwd r <= cr_granted r /\ cr_panic r = false.
Proof. exact forwarded_le_granted. Qed.
Print Assumptions C05_forwarded_le_granted.

Theorem C05_low_water_mark : LOW_CAPACITY = 4.
Proof. exact low_capacity_val. Qed.
Print Assumptions C05_low_water_mark.

(* each accepted item yields exactly one ItemReceived to the receiver's owner in the same step
   (so delivery order = send order), payload unchanged and tagged with the sender's version, and
   the replenishment computed by the credit rule goes to the sender *)
Theorem C05_item_delivered_once : forall s c cs cookie v ch ch' ro rcs add fresh b,
  conns s !! c = Some cs -> cs_alive cs = true ->
  chans s !! cookie = Some ch ->
  chan_send_item ch c = ItemForward ch' ro add ->
  conns s !! ro = Some rcs -> cs_alive rcs = true ->
  exists m', handle (fresh_M s) c (SendItem cookie v) fresh b = Done m' /\
    mo m' = (ro, ItemReceived cookie v, Some (cs_ver cs)) ::
            match add with Some a => [(c, AddChannelCapacity cookie a, None)] | None => [] end /\
    chans (ms m') !! cookie = Some ch' /\ mw m' = work0.
Proof. exact send_item_forward. Qed.
Print Assumptions C05_item_delivered_once.

(* a sender that stays within the capacity announced to it is never cut off *)
Theorem C05_within_credit_never_cut : forall ch c so sc ro rc,
  chan_ok ch -> ch_s ch = Claimed so sc -> ch_r ch = Claimed ro rc -> so = c -> 0 < sc ->
  exists ch' add, chan_send_item ch c = ItemForward ch' ro add.
Proof. exact within_credit_forwarded. Qed.
Print Assumptions C05_within_credit_never_cut.

(* one that exceeds it loses only its own end; the receiver is told exactly once *)
Theorem C05_exceed_loses_own_end : forall s c cs cookie v ch ro rcs fresh b,
  conns s !! c = Some cs ->
  chans s !! cookie = Some ch ->
  chan_send_item ch c = ItemExhausted ->
  ch_r ch = Claimed ro 0 -> conns s !! ro = Some rcs -> cs_alive rcs = true ->
  exists m', handle (fresh_M s) c (SendItem cookie v) fresh b = Done m' /\
    mo m' = [(ro, ChannelEndClosed cookie ESender, None)] /\
    chans (ms m') !! cookie = Some (ch <| ch_s := Closed |>).
Proof. exact send_item_exhausted. Qed.
Print Assumptions C05_exceed_loses_own_end.

(* a capacity grant that would overflow u32 closes only the receiver *)
Theorem C05_overflow_closes_receiver : forall s c cs cookie cap ch so sc scs fresh b,
  conns s !! c = Some cs ->
  chans s !! cookie = Some ch ->
  chan_add_capacity ch c cap = AddOverflow ->
  ch_s ch = Claimed so sc -> conns s !! so = Some scs -> cs_alive scs = true ->
  exists m', handle (fresh_M s) c (AddChannelCapacity cookie cap) fresh b = Done m' /\
    mo m' = [(so, ChannelEndClosed cookie EReceiver, None)] /\
    chans (ms m') !! cookie = Some (ch <| ch_r := Closed |>).
Proof. exact add_capacity_overflow. Qed.
Print Assumptions C05_overflow_closes_receiver.

(* the end state machine *)
Theorem C05_claim_once : forall ch c e ch' other r c2,
  chan_claim ch c e = ClaimOk ch' other r ->
  exists r', chan_claim ch' c2 e = ClaimErr r' /\ r' = CLAlready.
Proof. exact claim_once. Qed.
Print Assumptions C05_claim_once.

Theorem C05_close_rule : forall ch c e,
  chan_close_result ch c e =
  match (match e with ESender => ch_s ch | EReceiver => ch_r ch end) with
  | Unclaimed => R3Ok
  | Claimed o _ => if bool_decide (o = c) then R3Ok else R3Foreign
  | Closed => R3Invalid
  end.
Proof. exact close_result_spec. Qed.
Print Assumptions C05_close_rule.

Theorem C05_no_unreachable_claim : forall ch c e, chan_ok ch -> endc_ok e ->
  match chan_claim ch c e with ClaimPanic _ => False | ClaimOk ch' _ _ => chan_ok ch' | ClaimErr _ => True end.
Proof. exact claim_ok. Qed.
Print Assumptions C05_no_unreachable_claim.

(* non-vacuity: a concrete channel run (receiver with capacity 6, sender claims, 7 items, a
   grant) satisfies the hypotheses and exercises forward, replenish and exhaustion *)
Example C05_run_example :
  let ops := [OpClaim 2 CSender; OpSend 2; OpSend 2; OpSend 2; OpAdd 1 3; OpSend 2; OpSend 2; OpSend 2;
              OpSend 2; OpSend 2; OpSend 2; OpSend 2] in
  let r := fold_left crun_step ops (crun_init 1 (CReceiver 6)) in
  Forall op_ok ops /\ cr_fwd r = 9 /\ cr_granted r = 9 /\ cr_panic r = false.
Proof.
  intros ops r. split.
  - unfold ops. repeat (apply Forall_cons; split; [first [exact I | (vm_compute; intros H; discriminate H)]|]). constructor.
  - vm_compute. auto.
Qed.
