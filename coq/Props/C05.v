(* Props/C05.v — Channels: in-order exactly-once delivery under capacity flow control.
   [chan_*] are the pure functions of broker/src/broker/channel.rs (Model.v), [handle] the broker's
   message handler, [crun_step] one operation (claim / send item / add capacity / close) on one
   channel with counters of forwarded items and granted capacity. *)
From stdpp Require Import gmap list.
From RecordUpdate Require Import RecordSet.
Import RecordSetNotations.
From Coq Require Import Lia.
From Aldrin Require Import gen.BrokerConsts gen.ClientConsts Broker.Model Broker.ChannelProofs Broker.ChannelStep
  Proto.Credit Proto.CreditProofs.
Local Open Scope N_scope.

(* for EVERY sequence of operations on a channel, by any connections: no unreachable!()/
   debug_assert! site of channel.rs is reached, the broker never forwards more items than the
   receiver granted (initial capacity + accepted grants), the stored channel stays well-formed
   (sender capacity <= receiver capacity <= u32::MAX, equal at or below the low-water mark 4) *)
Theorem C05_credit_all_sequences : forall c e ops, endc_ok e -> Forall op_ok ops ->
  crun_inv (fold_left crun_step ops (crun_init c e)).
Proof. exact channel_runs. Qed.
Print Assumptions C05_credit_all_sequences.

Theorem C05_forwarded_le_granted : forall c e ops, endc_ok e -> Forall op_ok ops ->
  let r := fold_left crun_step ops (crun_init c e) in
  cr_fwd r <= cr_granted r /\ cr_panic r = false.
Proof. exact forwarded_le_granted. Qed.
Print Assumptions C05_forwarded_le_granted.

Theorem C05_low_water_mark : LOW_CAPACITY = 4.
Proof. exact low_capacity_val. Qed.
Print Assumptions C05_low_water_mark.

(* each accepted item yields exactly one ItemReceived to the receiver's owner in the same step
   (so delivery order = send order), payload unchanged and tagged with the sender's version, and
   the replenishment computed by the credit rule goes to the sender *)
Theorem C05_item_delivered_once : forall s c cs cookie v ch ch' ro rcs add fresh b,
  conns s !! c = Some cs -> cs_alive cs = true ->
  chans s !! cookie = Some ch ->
  chan_send_item ch c = ItemForward ch' ro add ->
  conns s !! ro = Some rcs -> cs_alive rcs = true ->
  exists m', handle (fresh_M s) c (SendItem cookie v) fresh b = Done m' /\
    mo m' = (ro, ItemReceived cookie v, Some (cs_ver cs)) ::
            match add with Some a => [(c, AddChannelCapacity cookie a, None)] | None => [] end /\
    chans (ms m') !! cookie = Some ch' /\ mw m' = work0.
Proof. exact send_item_forward. Qed.
Print Assumptions C05_item_delivered_once.

(* a sender that stays within the capacity announced to it is never cut off *)
Theorem C05_within_credit_never_cut : forall ch c so sc ro rc,
  chan_ok ch -> ch_s ch = Claimed so sc -> ch_r ch = Claimed ro rc -> so = c -> 0 < sc ->
  exists ch' add, chan_send_item ch c = ItemForward ch' ro add.
Proof. exact within_credit_forwarded. Qed.
Print Assumptions C05_within_credit_never_cut.

(* one that exceeds it loses only its own end; the receiver is told exactly once *)
Theorem C05_exceed_loses_own_end : forall s c cs cookie v ch ro rcs fresh b,
  conns s !! c = Some cs ->
  chans s !! cookie = Some ch ->
  chan_send_item ch c = ItemExhausted ->
  ch_r ch = Claimed ro 0 -> conns s !! ro = Some rcs -> cs_alive rcs = true ->
  exists m', handle (fresh_M s) c (SendItem cookie v) fresh b = Done m' /\
    mo m' = [(ro, ChannelEndClosed cookie ESender, None)] /\
    chans (ms m') !! cookie = Some (ch <| ch_s := Closed |>).
Proof. exact send_item_exhausted. Qed.
Print Assumptions C05_exceed_loses_own_end.

(* a capacity grant that would overflow u32 closes only the receiver *)
Theorem C05_overflow_closes_receiver : forall s c cs cookie cap ch so sc scs fresh b,
  conns s !! c = Some cs ->
  chans s !! cookie = Some ch ->
  chan_add_capacity ch c cap = AddOverflow ->
  ch_s ch = Claimed so sc -> conns s !! so = Some scs -> cs_alive scs = true ->
  exists m', handle (fresh_M s) c (AddChannelCapacity cookie cap) fresh b = Done m' /\
    mo m' = [(so, ChannelEndClosed cookie EReceiver, None)] /\
    chans (ms m') !! cookie = Some (ch <| ch_r := Closed |>).
Proof. exact add_capacity_overflow. Qed.
Print Assumptions C05_overflow_closes_receiver.

(* the end state machine *)
Theorem C05_claim_once : forall ch c e ch' other r c2,
  chan_claim ch c e = ClaimOk ch' other r ->
  exists r', chan_claim ch' c2 e = ClaimErr r' /\ r' = CLAlready.
Proof. exact claim_once. Qed.
Print Assumptions C05_claim_once.

Theorem C05_close_rule : forall ch c e,
  chan_close_result ch c e =
  match (match e with ESender => ch_s ch | EReceiver => ch_r ch end) with
  | Unclaimed => R3Ok
  | Claimed o _ => if bool_decide (o = c) then R3Ok else R3Foreign
  | Closed => R3Invalid
  end.
Proof. exact close_result_spec. Qed.
Print Assumptions C05_close_rule.

Theorem C05_no_unreachable_claim : forall ch c e, chan_ok ch -> endc_ok e ->
  match chan_claim ch c e with ClaimPanic _ => False | ClaimOk ch' _ _ => chan_ok ch' | ClaimErr _ => True end.
Proof. exact claim_ok. Qed.
Print Assumptions C05_no_unreachable_claim.

(* non-vacuity: a concrete channel run (receiver with capacity 6, sender claims, 7 items, a
   grant) satisfies the hypotheses and exercises forward, replenish and exhaustion *)
Example C05_run_example :
  let ops := [OpClaim 2 CSender; OpSend 2; OpSend 2; OpSend 2; OpAdd 1 3; OpSend 2; OpSend 2; OpSend 2;
              OpSend 2; OpSend 2; OpSend 2; OpSend 2] in
  let r := fold_left crun_step ops (crun_init 1 (CReceiver 6)) in
  Forall op_ok ops /\ cr_fwd r = 9 /\ cr_granted r = 9 /\ cr_panic r = false.
Proof.
  intros ops r. split.
  - unfold ops. repeat (apply Forall_cons; split; [first [exact I | (vm_compute; intros H; discriminate H)]|]). constructor.
  - vm_compute. auto.
Qed.

(* ================================================================ end to end (client level)
   Proto/Credit.v: ONE established channel with the real shape of both clients — the `Sender`
   (capacity, the capacity_added stream drained by BOTH poll_send_ready and poll_receiver_closed),
   the `Receiver` (cur/max capacity, low-water mark 4, item queue), each client's map entry, four
   FIFO links, and the broker's entry driven through chan_send_item / chan_add_capacity /
   chan_close_result / chan_close above.  [wrun cS cR (winit cS cR cap) sch] = the state after the
   schedule [sch] (any interleaving of: send v, poll_send_ready, poll_receiver_closed, recv,
   close/drop of either end, the broker handling the next message of either connection, either
   client handling its next message), for owners cS, cR (possibly the same connection) and any
   receiver capacity 1 <= cap <= u32::MAX. *)

Theorem C05_client_low_water_mark : CLIENT_LOW = 4.
Proof. exact client_low_val. Qed.
Print Assumptions C05_client_low_water_mark.

(* for EVERY schedule: the broker's Channel::send_item never returns CapacityExhausted for this
   sender ([f_cut]), Channel::add_capacity never AddCapacityError ([f_ovf]), no debug_assert!/
   unreachable!/u32-overflow site of channel.rs, established.rs, client.rs is reached ([f_panic]),
   and neither client receives a message it answers with UnexpectedMessageReceived ([f_unexp]) *)
Theorem C05_e2e_never_cut : forall cS cR cap sch, 1 <= cap -> cap <= 4294967295 ->
  let w := wrun cS cR (winit cS cR cap) sch in
  f_cut w = false /\ f_ovf w = false /\ f_panic w = None /\ f_unexp w = false.
Proof. intros cS cR cap sch H1 H2. exact (e2e_never_cut cS cR cap sch (conj H1 H2)). Qed.
Print Assumptions C05_e2e_never_cut.

(* the same at the branch: an item of the sender that the broker is about to handle is forwarded,
   or ignored because the receiver application has closed *)
Theorem C05_e2e_item_forwarded_or_receiver_closed : forall cS cR cap w ch v q,
  1 <= cap -> cap <= 4294967295 -> reachable cS cR cap w ->
  br_ch w = Some ch -> q_sb w = SItem v :: q ->
  (exists ch' add, chan_send_item ch cS = ItemForward ch' cR add) \/
  (chan_send_item ch cS = ItemIgnore /\ ch_r ch = Closed /\ rv_open w = false).
Proof. intros cS cR cap w ch v q H1 H2. exact (e2e_send_item_branch cS cR cap w ch v q (conj H1 H2)). Qed.
Print Assumptions C05_e2e_item_forwarded_or_receiver_closed.

(* in order, exactly once: what the receiver application has consumed is a prefix of what the
   sender application has sent; until the receiver application closes, the sent sequence IS
   consumed ++ receiver's queue ++ items on the link to the receiver ++ items on the link to the
   broker (every item at exactly one place, in send order — also after the sender has closed);
   when nothing is in flight everything sent has been consumed *)
Theorem C05_e2e_in_order_exactly_once : forall cS cR cap sch, 1 <= cap -> cap <= 4294967295 ->
  let w := wrun cS cR (winit cS cR cap) sch in
  (exists rest, sd_sent w = rv_got w ++ rest) /\
  (rv_open w = true -> sd_sent w = rv_got w ++ rv_queue w ++ br_items (q_br w) ++ sb_items (q_sb w)) /\
  (rv_open w = true -> quiet w -> rv_got w = sd_sent w).
Proof. intros cS cR cap sch H1 H2. exact (e2e_in_order cS cR cap sch (conj H1 H2)). Qed.
Print Assumptions C05_e2e_in_order_exactly_once.

(* conservation: sender-local capacity + announcements waiting in capacity_added + items on the
   way to the broker + announcements on the way to the sender = the broker's sender_capacity (<=
   once the sender has closed); sender_capacity <= receiver_capacity, equal at or below the
   low-water mark 4; receiver_capacity + items on the way to / queued at the receiver + grants on
   the way to the broker = the receiver's cur_capacity (<= once it has closed) <= max = cap *)
Theorem C05_e2e_conservation : forall cS cR cap sch, 1 <= cap -> cap <= 4294967295 ->
  let w := wrun cS cR (winit cS cR cap) sch in
  rv_max w = cap /\ 1 <= rv_cur w /\ rv_cur w <= cap /\
  forall sc rc, b_scap w = Some sc -> b_rcap w = Some rc ->
    sd_cap w + added_sum (sd_added w) + len (sb_items (q_sb w)) + bs_adds (q_bs w) <= sc /\
    (sd_open w = true ->
     sd_cap w + added_sum (sd_added w) + len (sb_items (q_sb w)) + bs_adds (q_bs w) = sc) /\
    sc <= rc /\ (sc <= 4 -> sc = rc) /\
    rc + len (br_items (q_br w)) + len (rv_queue w) + rb_adds (q_rb w) <= rv_cur w /\
    (rv_open w = true -> rc + len (br_items (q_br w)) + len (rv_queue w) + rb_adds (q_rb w) = rv_cur w).
Proof. intros cS cR cap sch H1 H2. exact (e2e_conservation cS cR cap sch (conj H1 H2)). Qed.
Print Assumptions C05_e2e_conservation.

Theorem C05_e2e_window : forall cS cR cap sch, 1 <= cap -> cap <= 4294967295 ->
  let w := wrun cS cR (winit cS cR cap) sch in
  forall sc rc, b_scap w = Some sc -> b_rcap w = Some rc ->
  sd_cap w + added_sum (sd_added w) + len (sb_items (q_sb w)) + len (br_items (q_br w)) + len (rv_queue w) <= cap.
Proof. intros cS cR cap sch H1 H2. exact (e2e_window cS cR cap sch (conj H1 H2)). Qed.
Print Assumptions C05_e2e_window.

(* a capacity announcement consumed by poll_receiver_closed is not lost: the poll leaves
   capacity + waiting announcements unchanged, empties the stream, and poll_send_ready answers
   afterwards what it would have answered before *)
Theorem C05_e2e_poll_closed_keeps_credit : forall cS cR cap w,
  1 <= cap -> cap <= 4294967295 -> reachable cS cR cap w ->
  let w' := wstep cS cR w APollClosed in
  sd_cap w' + added_sum (sd_added w') = sd_cap w + added_sum (sd_added w) /\ sd_added w' = [] /\
  send_ready w' = send_ready w.
Proof. intros cS cR cap w H1 H2. exact (e2e_poll_closed_keeps_credit cS cR cap w (conj H1 H2)). Qed.
Print Assumptions C05_e2e_poll_closed_keeps_credit.

(* close requests on an established channel are confirmed with Ok (no unexpected InvalidChannel) *)
Theorem C05_e2e_close_confirmed : forall cS cR cap sch, 1 <= cap -> cap <= 4294967295 ->
  let w := wrun cS cR (winit cS cR cap) sch in
  (forall r, sd_res w = KDone r -> r = R3Ok) /\ (forall r, rv_res w = KDone r -> r = R3Ok).
Proof. intros cS cR cap sch H1 H2. exact (e2e_close_confirmed cS cR cap sch (conj H1 H2)). Qed.
Print Assumptions C05_e2e_close_confirmed.

(* no deadlock: both applications hold their ends open, nothing is in flight (links, receiver
   queue and capacity_added empty) => poll_send_ready answers Ready(Ok(())) *)
Theorem C05_e2e_no_deadlock : forall cS cR cap w,
  1 <= cap -> cap <= 4294967295 -> reachable cS cR cap w ->
  sd_open w = true -> rv_open w = true -> quiet w -> send_ready w = RdOk.
Proof. intros cS cR cap w H1 H2. exact (e2e_no_deadlock cS cR cap w (conj H1 H2)). Qed.
Print Assumptions C05_e2e_no_deadlock.

(* progress: from EVERY reachable state with both ends open there is a finite schedule after
   which the receiver application has consumed everything sent so far plus a further item v *)
Theorem C05_e2e_progress : forall cS cR cap w v,
  1 <= cap -> cap <= 4294967295 -> reachable cS cR cap w ->
  sd_open w = true -> rv_open w = true ->
  exists sch, rv_got (wrun cS cR w sch) = sd_sent w ++ [v].
Proof. intros cS cR cap w v H1 H2. exact (e2e_progress cS cR cap w v (conj H1 H2)). Qed.
Print Assumptions C05_e2e_progress.

(* non-vacuity: a concrete schedule on a channel of capacity 2 between connections 1 and 2: the
   sender fills its window, polls receiver_closed() between sends (the announcement is absorbed by
   that poll), the receiver re-grants at the low-water mark, the sender closes; everything sent is
   consumed in order, no flag is set, the close is confirmed *)
Example C05_e2e_example :
  let sch := [ASend 10; ASend 11; ASend 12; BrokerS; BrokerS; ClientR; ARecv; BrokerR; ClientS; APollClosed;
              ASend 13; ClientR; ARecv; BrokerS; ClientR; ARecv; ACloseS; BrokerS; ClientS; ClientR; ARecv] in
  let w := wrun 1 2 (winit 1 2 2) sch in
  reachable 1 2 2 w /\ sd_sent w = [10; 11; 13] /\ rv_got w = [10; 11; 13] /\ rv_open w = true /\
  sd_res w = KDone R3Ok /\ f_cut w = false /\ f_panic w = None /\ f_unexp w = false /\
  recv_result w = GotEnd.
Proof.
  intros sch w. split; [apply reachable_run; constructor|]. vm_compute. repeat split; reflexivity.
Qed.

(* the hypotheses of the progress / no-deadlock theorems are satisfiable: a reachable state with
   both ends open in which the sender is blocked (capacity 0) and something is in flight *)
Example C05_e2e_blocked_then_ready :
  let w := wrun 1 2 (winit 1 2 1) [ASend 7] in
  reachable 1 2 1 w /\ sd_open w = true /\ rv_open w = true /\ send_ready w = RdPending /\
  send_ready (wrun 1 2 w [BrokerS; ClientR; ARecv; BrokerR; ClientS]) = RdOk /\
  quiet (wrun 1 2 w [BrokerS; ClientR; ARecv; BrokerR; ClientS; APollReady]).
Proof.
  intros w. split; [apply (reachable_run 1 2 1 _ [ASend 7]); constructor|]. vm_compute. repeat split; reflexivity.
Qed.
