(* Props/C11.v — C11: whatever well-formed messages connections send, the broker reaches none of
   its inconsistent-state panic sites, and its state stays consistent (Inv).  Statements only;
   proofs in Broker/InvProofs*.v and Props/C11_lemmas.v. *)
From stdpp Require Import gmap list.
From Aldrin Require Import gen.BrokerConsts Broker.Model Broker.Run Broker.ChannelProofs Broker.Inv
  Broker.InvProofsStep Broker.InvProofsTerm Broker.FuelProofs Props.C11_lemmas.
Local Open Scope N_scope.

Theorem C11_inv_init : Inv init.
Proof. exact inv_init. Qed.
Print Assumptions C11_inv_init.

Theorem C11_inv_step : forall s i s' o,
  Inv s -> legal s i -> step s (i_ev i) (i_fresh i) (i_bserial i) = Done (s', o) -> Inv s'.
Proof. exact inv_step. Qed.
Print Assumptions C11_inv_step.

Theorem C11_reachable_inv : forall s, reachable s -> Inv s.
Proof. exact reachable_inv. Qed.
Print Assumptions C11_reachable_inv.

(* none of the expect("inconsistent state") / indexing / unreachable!() / debug_assert! sites
   (every Panic site other than the model's fuel site 0) is reachable *)
Theorem C11_no_panic : forall s i site,
  reachable s -> legal s i -> site <> 0 ->
  step s (i_ev i) (i_fresh i) (i_bserial i) <> Panic site.
Proof. exact reach_no_panic. Qed.
Print Assumptions C11_no_panic.

(* a step never returns an error: a failing handler only queues the sender for removal *)
Theorem C11_no_fail : forall s i x,
  reachable s -> legal s i -> step s (i_ev i) (i_fresh i) (i_bserial i) <> Fail x.
Proof. exact reach_no_fail. Qed.
Print Assumptions C11_no_fail.

(* history form *)
Theorem C11_no_panic_run : forall h site,
  legal_run init h -> site <> 0 -> run init h <> Panic site.
Proof. exact run_no_panic. Qed.
Print Assumptions C11_no_panic_run.

Theorem C11_run_inv : forall h s os, legal_run init h -> run init h = Done (s, os) -> Inv s.
Proof. exact run_inv. Qed.
Print Assumptions C11_run_inv.

(* when the last connection is gone nothing is left behind *)
Theorem C11_no_residue : forall s,
  reachable s -> conns s = ∅ ->
  objs s = ∅ /\ svcs s = ∅ /\ calls s = ∅ /\ chans s = ∅ /\ listeners s = ∅.
Proof. exact reach_no_residue. Qed.
Print Assumptions C11_no_residue.

(* a connected client's pending-call map is exactly its live, non-aborted calls: a misbehaving
   peer cannot corrupt another connection's call bookkeeping *)
Theorem C11_pending_calls : forall s c cs serial b,
  reachable s -> conns s !! c = Some cs ->
  ((exists callee, cs_calls cs !! serial = Some (b, callee)) <->
   (exists cl, calls s !! b = Some cl /\ c_caller cl = c /\ c_serial cl = serial /\ c_aborted cl = false)).
Proof. exact reach_pending_iff. Qed.
Print Assumptions C11_pending_calls.

(* the hypotheses are satisfiable: a legal one-step history *)
Example C11_legal_example :
  legal init {| i_ev := NewConnection 1 20; i_fresh := 7; i_bserial := None |}.
Proof. exact legal_example. Qed.

(* a healthy bystander is never disconnected by what others do: a connection whose receiver is
   alive stays connected (and alive) across any step that is not its own message, its own
   shutdown / task drop, or the shutdown of the whole broker.  Needs neither Inv nor legal. *)
Theorem C11_bystander_stays : forall s e f b c2 cs2 s' o,
  conns s !! c2 = Some cs2 -> cs_alive cs2 = true -> bystander_ok c2 e ->
  step s e f b = Done (s', o) ->
  exists cs', conns s' !! c2 = Some cs' /\ cs_alive cs' = true.
Proof. exact step_bystander_stays. Qed.
Print Assumptions C11_bystander_stays.

(* the sender of a message stays connected when its handler returns Ok (it is closed only when
   the handler reports an error, i.e. on a protocol violation or a dead receiver) *)
Theorem C11_sender_stays : forall s c x f b cs m s' o,
  conns s !! c = Some cs -> cs_alive cs = true ->
  handle {| ms := s; mw := work0; mo := [] |} c x f b = Done m ->
  step s (Message c x) f b = Done (s', o) ->
  exists cs', conns s' !! c = Some cs' /\ cs_alive cs' = true.
Proof. exact step_sender_stays. Qed.
Print Assumptions C11_sender_stays.

(* "answers, ignores, or closes": the handler of a message from a live connection returns Ok
   (the connection stays) or an error (the connection is closed within the same step); it never
   reaches a panic site (C11_no_panic) *)
Theorem C11_handled_or_closed : forall s i c x cs s' o,
  reachable s -> legal s i -> i_ev i = Message c x ->
  conns s !! c = Some cs -> cs_alive cs = true ->
  step s (Message c x) (i_fresh i) (i_bserial i) = Done (s', o) ->
  (exists m, handle {| ms := s; mw := work0; mo := [] |} c x (i_fresh i) (i_bserial i) = Done m /\
        exists cs', conns s' !! c = Some cs' /\ cs_alive cs' = true) \/
  (exists mf, handle {| ms := s; mw := work0; mo := [] |} c x (i_fresh i) (i_bserial i) = Fail mf /\
         conns s' !! c = None).
Proof. exact message_handled_or_closed. Qed.
Print Assumptions C11_handled_or_closed.

Theorem C11_failing_sender_closed : forall s c x f b mf s' o,
  handle {| ms := s; mw := work0; mo := [] |} c x f b = Fail mf ->
  step s (Message c x) f b = Done (s', o) -> conns s' !! c = None.
Proof. exact failing_sender_closed. Qed.
Print Assumptions C11_failing_sender_closed.

Theorem C11_shutdown_closes : forall s c f b s' o e,
  e = ConnectionShutdown c \/ e = ShutdownConnection c ->
  step s e f b = Done (s', o) -> conns s' !! c = None.
Proof. exact shutdown_event_closes. Qed.
Print Assumptions C11_shutdown_closes.

Theorem C11_shutdown_broker_closes_all : forall s f b s' o,
  step s ShutdownBroker f b = Done (s', o) -> conns s' = ∅.
Proof. exact shutdown_broker_closes_all. Qed.
Print Assumptions C11_shutdown_broker_closes_all.

(* objects of other connections: whatever [c] sends, an object owned by another connection whose
   receiver is alive is still there, unchanged, after the step *)
Theorem C11_objects_of_others_kept : forall s i c x u o cso s' out,
  reachable s -> legal s i -> i_ev i = Message c x ->
  objs s !! u = Some o -> o_owner o <> c -> conns s !! o_owner o = Some cso -> cs_alive cso = true ->
  step s (Message c x) (i_fresh i) (i_bserial i) = Done (s', out) ->
  objs s' !! u = Some o.
Proof. exact step_keeps_others. Qed.
Print Assumptions C11_objects_of_others_kept.

(* the broker does not hang: the work loop terminates from every machine state the handlers can
   produce; [step_fuel F] is [step] with [F m] instead of [fuel_for m] as the loop's fuel.
   For every legal input in a reachable state there is an amount of fuel with which the step is
   Done (in an Inv state), and every larger amount gives the same result *)
Theorem C11_work_loop_terminates : forall m, MI m -> exists fuel m', settle fuel m = Done m'.
Proof. exact settle_terminates. Qed.
Print Assumptions C11_work_loop_terminates.

Theorem C11_step_is_step_fuel : forall s e fresh bserial,
  step s e fresh bserial = step_fuel fuel_for s e fresh bserial.
Proof. exact step_step_fuel. Qed.
Print Assumptions C11_step_is_step_fuel.

Theorem C11_terminates : forall s i,
  reachable s -> legal s i ->
  exists n s' o, Inv s' /\
    forall F : M -> nat, (forall m, n <= F m)%nat ->
      step_fuel F s (i_ev i) (i_fresh i) (i_bserial i) = Done (s', o).
Proof. exact reach_terminates. Qed.
Print Assumptions C11_terminates.

(* the model's own step is Done in an Inv state, or stops at the fuel site: nothing else *)
Theorem C11_done_or_fuel : forall s i,
  reachable s -> legal s i ->
  step s (i_ev i) (i_fresh i) (i_bserial i) = Panic 0 \/
  exists s' o, step s (i_ev i) (i_fresh i) (i_bserial i) = Done (s', o) /\ Inv s'.
Proof. exact reach_done_or_fuel. Qed.
Print Assumptions C11_done_or_fuel.

(* the explicit fuel bound (Broker/FuelProofs.v).  [fuel_for m] is one more than the potential
     |w_remove_conns| + open channel ends + (3 + |conns|) * (other queued work + load of the state)
   which every iteration of the work loop lowers; so the loop, started with [fuel_for] of the
   machine the handler left, finishes: the fuel site 0 of the model is unreachable *)
Theorem C11_fuel_suffices : forall m, MI m -> exists m', settle (fuel_for m) m = Done m'.
Proof. exact settle_fuel_for. Qed.
Print Assumptions C11_fuel_suffices.

Theorem C11_fuel_bound : forall fuel m,
  MI m ->
  (length (w_remove_conns (mw m)) + state_ends (ms m)
   + (3 + size (conns (ms m))) * (work_len (mw m) + state_load (ms m)) <= fuel)%nat ->
  exists m', settle fuel m = Done m'.
Proof. exact settle_fuel_enough. Qed.
Print Assumptions C11_fuel_bound.

(* hence the step is total: Done in an Inv state; no panic site at all, 0 included *)
Theorem C11_step_total : forall s i,
  reachable s -> legal s i ->
  exists s' o, step s (i_ev i) (i_fresh i) (i_bserial i) = Done (s', o) /\ Inv s'.
Proof. exact reach_step_total. Qed.
Print Assumptions C11_step_total.

Theorem C11_never_panics : forall s i site,
  reachable s -> legal s i -> step s (i_ev i) (i_fresh i) (i_bserial i) <> Panic site.
Proof. exact reach_never_panics. Qed.
Print Assumptions C11_never_panics.

(* history form: every legal history runs to completion *)
Theorem C11_run_total : forall h, legal_run init h -> exists s os, run init h = Done (s, os).
Proof. exact run_total_init. Qed.
Print Assumptions C11_run_total.

(* frame: what a step leaves untouched.  [bystander_ok g e]: the event [e] is not [g]'s own message,
   shutdown or task drop, and not ShutdownBroker; in particular e = Message c x with c <> g, whatever
   the abusive or failing connection [c] sends, and the removal of [c] and of every other dead
   connection in the same step included.
   A channel both of whose ends are claimed by healthy connections is exactly the same afterwards
   (needs neither Inv nor reachability, only that the fresh cookie is not in use) *)
Theorem C11_channels_of_others_kept : forall s e f b k ch o1 n1 o2 n2 cs1 cs2 s' out,
  chans s !! k = Some ch -> ch_s ch = Claimed o1 n1 -> ch_r ch = Claimed o2 n2 ->
  conns s !! o1 = Some cs1 -> cs_alive cs1 = true -> conns s !! o2 = Some cs2 -> cs_alive cs2 = true ->
  bystander_ok o1 e -> bystander_ok o2 e -> f ∉ cookies_in_use s ->
  step s e f b = Done (s', out) ->
  chans s' !! k = Some ch.
Proof. exact step_keeps_chan. Qed.
Print Assumptions C11_channels_of_others_kept.

(* a service whose owner (the owner of its object) is healthy is still registered under the same
   key, for the same owner, with the same cookie, object cookie and info; its subscription sets and
   pending calls may change, that is the protocol *)
Theorem C11_services_of_others_kept : forall s e f b k sv g csg s' out,
  reachable s -> svcs s !! k = Some sv -> owner_of_svc s k = Some g ->
  conns s !! g = Some csg -> cs_alive csg = true -> bystander_ok g e -> f ∉ cookies_in_use s ->
  step s e f b = Done (s', out) ->
  owner_of_svc s' k = Some g /\
  exists sv', svcs s' !! k = Some sv' /\ s_cookie sv' = s_cookie sv /\ s_obj_cookie sv' = s_obj_cookie sv /\
              s_info sv' = s_info sv.
Proof. exact reach_keeps_svc. Qed.
Print Assumptions C11_services_of_others_kept.

(* a pending call whose caller and callee (the owner of the called service's object) are healthy
   keeps its record, aborted flag included: a third party can neither drop, answer nor abort it
   (with C11_pending_calls in the reachable state s': the caller's pending entry is kept too) *)
Theorem C11_calls_of_others_kept : forall s e f bs b cl g cs1 cs2 s' out,
  reachable s -> calls s !! b = Some cl -> owner_of_svc s (c_svc cl) = Some g ->
  conns s !! c_caller cl = Some cs1 -> cs_alive cs1 = true -> conns s !! g = Some cs2 -> cs_alive cs2 = true ->
  bystander_ok (c_caller cl) e -> bystander_ok g e -> f ∉ cookies_in_use s ->
  step s e f bs = Done (s', out) ->
  calls s' !! b = Some cl.
Proof. exact reach_keeps_call. Qed.
Print Assumptions C11_calls_of_others_kept.
