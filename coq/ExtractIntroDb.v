(* Extraction of the introspection-database machine (Broker/IntroDb.v) for the C09 introdb
   correspondence (ExtrOcamlBasic only). *)
From Aldrin Require Import Broker.IntroDb.
From stdpp Require Import gmap.
Require Extraction ExtrOcamlBasic.
Extraction Language OCaml.
Definition idb_conn_ids (s : istate) : list N := (fun p => p.1) <$> map_to_list (i_conns s).
Definition idb_num_conns (s : istate) : nat := size (i_conns s).
Definition idb_num_entries (s : istate) : nat := size (i_entries s).
Definition idb_num_queries (s : istate) : nat := size (i_qmap s).
Definition idb_qmap (s : istate) : list (N * N) := map_to_list (i_qmap s).
Definition idb_providers (s : istate) (t : itid) : list N :=
  match i_entries s !! t with Some e => e_ids e | None => [] end.
Extraction "introdb_model.ml" iinit istep iexits idb_conn_ids idb_num_conns idb_num_entries
  idb_num_queries idb_qmap idb_providers N.of_nat N.to_nat.
