#!/bin/bash
# Run once in /verif after a fresh restore, offline: build the framework from files on disk only.
set -u
cd "$(dirname "$0")"
export CARGO_NET_OFFLINE=true
mkdir -p build work evidence/replays
[ -e repo-link ] || ln -sfn /repo repo-link
python3 tools/rs2v.py || echo "setup: translator reported a broken tie (checks will report it)"
python3 tools/mkproject.py
( cd coq && coq_makefile -f _CoqProject -o Makefile >/dev/null && timeout 3000 make -k -j16 ) 2>&1 | tail -5
cp /repo/Cargo.lock harness/Cargo.lock 2>/dev/null
( cd harness && timeout 3000 cargo build --offline --bins && timeout 3000 cargo build --offline --bin intro --features c20-macros ) 2>&1 | tail -3
python3 - <<'PY'
import sys, os
sys.path.insert(0, os.getcwd())
from vlib import core
import glob
drivers = [("ExtractCodec.v", "codec_model", "codec_driver.ml", "codec_driver"),
           ("ExtractMsg.v", "msg_model", "msg_driver.ml", "msg_driver"),
           ("ExtractBroker.v", "broker_model", "broker_driver.ml", "broker_driver"),
           ("ExtractStream.v", "stream_model", "stream_driver.ml", "stream_driver")]
# further drivers are built on demand by their checks
for ext, model, drv, exe in drivers:
    if os.path.exists(os.path.join(core.COQ, ext)):
        ok, out = core.build_driver(ext, model, drv, exe)
        print("driver", exe, "ok" if ok else "FAILED\n" + out[-2000:])
PY
exit 0
