(* clientfold_driver.ml — runs the extracted discovery / lifetime folds (clientfold_model.ml) on a
   cases file written by harness/src/bin/discover.rs: one operation per line, one answer per line.

   case ..                      new world
   spec <key> <obj|-> <s,s|->   one DiscovererBuilder::add
   new                          build the entries
   cur <ev> <ev> ..             the snapshot the listener got (in the SHADOW listener's order)
   ev <ev>                      one new bus event
   deliv                        is snapshot ++ events (since the last restart) deliverable?
   prefix <key> <devs>          the events the real discoverer had emitted for <key> when it was
                                restarted: a prefix of the model's (snapshot part as a multiset)
   events <key> <devs>          all events the real discoverer emitted for <key> since the last
                                restart: snapshot part = the model's as a multiset, rest = exactly
   restart                      reset (and check reset = fresh entries)
   view <key>                   print the entry's view
   lt <u> <c> | cur | news      Lifetime fold: ended=0/1
   find <obj> <svcs> | cur | result        is the real answer one the model allows?
   wait <obj> <svcs> | cur | news | result
   bus events:  oc:u:c od:u:c sc:ou:oc:su:sc sd:ou:oc:su:sc     discoverer events: +u.c -u.c *)
open Clientfold_model

let rec pos_of_int i = if i = 1 then XH else if i land 1 = 0 then XO (pos_of_int (i lsr 1)) else XI (pos_of_int (i lsr 1))
let n_of_int i = if i = 0 then N0 else Npos (pos_of_int i)
let rec int_of_pos = function XH -> 1 | XO p -> 2 * int_of_pos p | XI p -> 2 * int_of_pos p + 1
let int_of_n = function N0 -> 0 | Npos p -> int_of_pos p
let num s = n_of_int (int_of_string s)

let words s = List.filter (fun x -> x <> "") (String.split_on_char ' ' s)
let sections s =
  (* split on " | " *)
  let parts = ref [] and cur = Buffer.create 64 in
  let n = String.length s in
  let i = ref 0 in
  while !i < n do
    if !i + 2 < n && s.[!i] = ' ' && s.[!i+1] = '|' && s.[!i+2] = ' ' then begin
      parts := Buffer.contents cur :: !parts; Buffer.clear cur; i := !i + 3 end
    else begin Buffer.add_char cur s.[!i]; incr i end
  done;
  List.rev (Buffer.contents cur :: !parts)

let bus_of s =
  match String.split_on_char ':' s with
  | ["oc"; u; c] -> EvObjectCreated (num u, num c)
  | ["od"; u; c] -> EvObjectDestroyed (num u, num c)
  | ["sc"; ou; oc; su; sc] -> EvServiceCreated (num ou, num oc, num su, num sc)
  | ["sd"; ou; oc; su; sc] -> EvServiceDestroyed (num ou, num oc, num su, num sc)
  | _ -> failwith ("bus event " ^ s)
let buses s = if String.trim s = "-" then [] else List.map bus_of (words s)
let bus_s = function
  | EvObjectCreated (u, c) -> Printf.sprintf "oc:%d:%d" (int_of_n u) (int_of_n c)
  | EvObjectDestroyed (u, c) -> Printf.sprintf "od:%d:%d" (int_of_n u) (int_of_n c)
  | EvServiceCreated (a, b, c, d) -> Printf.sprintf "sc:%d:%d:%d:%d" (int_of_n a) (int_of_n b) (int_of_n c) (int_of_n d)
  | EvServiceDestroyed (a, b, c, d) -> Printf.sprintf "sd:%d:%d:%d:%d" (int_of_n a) (int_of_n b) (int_of_n c) (int_of_n d)

let dev_s d =
  Printf.sprintf "%s%d.%d" (match d.de_kind with Created -> "+" | Destroyed -> "-") (int_of_n d.de_u) (int_of_n d.de_c)
let devs_s l = if l = [] then "-" else String.concat " " (List.map dev_s l)

let site_s (_ : site) = "PANIC"

let opt_of s = if s = "-" then None else Some (num s)
let list_of s = if s = "-" then [] else List.map num (String.split_on_char ',' s)

(* ---- state of one world *)
let specs : espec list ref = ref []
let entries : entry list ref = ref []
let cur : bus_event list ref = ref []
let news : bus_event list ref = ref []        (* reversed *)
let cur_devs : devent list ref = ref []
let new_devs : devent list ref = ref []       (* reversed *)
let sticky : string option ref = ref None
let note s = if !sticky = None then sticky := Some s

let feed ev into =
  match disc_step !entries ev with
  | Ok (es, ds) -> entries := es; into := List.rev_append ds !into
  | Panic _ -> note ("PANIC in handle_event on " ^ bus_s ev)

let for_key k l = List.filter (fun d -> int_of_n d.de_key = k) l

let rec remove_one x = function
  | [] -> None
  | y :: l -> if x = y then Some l else (match remove_one x l with Some l' -> Some (y :: l') | None -> None)
let rec sub_multiset a b = match a with
  | [] -> true
  | x :: a' -> (match remove_one x b with Some b' -> sub_multiset a' b' | None -> false)
let rec take n l = if n = 0 then [] else match l with [] -> [] | x :: l' -> x :: take (n - 1) l'
let rec drop n l = if n = 0 then l else match l with [] -> [] | _ :: l' -> drop (n - 1) l'
let rec is_prefix a b = match a, b with
  | [], _ -> true
  | x :: a', y :: b' -> x = y && is_prefix a' b'
  | _ -> false

let ok_or s = match !sticky with Some e -> e | None -> s

let found_s u c ids =
  Printf.sprintf "%d.%d[%s]" (int_of_n u) (int_of_n c)
    (String.concat "," (List.map (fun (s, (_, sc)) -> Printf.sprintf "%d.%d" (int_of_n s) (int_of_n sc)) ids))

let view_of (sp : espec) (e : entry) : string =
  let objs = List.sort compare (List.map (fun (u, c) -> (int_of_n u, int_of_n c)) (entry_iter e)) in
  let one (u, c) =
    match entry_service_ids e (n_of_int u) sp.sp_svcs with
    | Ok (Some ids) -> found_s (n_of_int u) (n_of_int c) (List.combine sp.sp_svcs ids)
    | Ok None -> Printf.sprintf "%d.%d[NONE]" u c
    | Panic _ -> Printf.sprintf "%d.%d[PANIC]" u c in
  if objs = [] then "-" else String.concat " " (List.map one objs)

(* the real answer "u.c[s.sc,..]" *)
let parse_found s =
  let i = String.index s '[' in
  let oc = String.sub s 0 i and rest = String.sub s (i + 1) (String.length s - i - 2) in
  let (u, c) = match String.split_on_char '.' oc with [u; c] -> (num u, num c) | _ -> failwith "found" in
  let ids = if rest = "" then [] else
    List.map (fun x -> match String.split_on_char '.' x with [a; b] -> (num a, num b) | _ -> failwith "found id")
      (String.split_on_char ',' rest) in
  (u, c, ids)

(* is (u, c, ids) an object that matches [sp] in truth [t], with these current service ids? *)
let valid_at t sp (u, c, ids) =
  matchingb t sp u c
  && List.length ids = List.length sp.sp_svcs
  && List.for_all2 (fun s (s', sc) -> s = s' && (match sget t.t_svcs u s with Some (oc', sc') -> oc' = c && sc' = sc | None -> false))
       sp.sp_svcs ids

let res_s = function
  | Ok None -> "none"
  | Ok (Some ((u, c), ids)) -> Printf.sprintf "%d.%d[%s]" (int_of_n u) (int_of_n c)
        (String.concat "," (List.map (fun (oc, sc) -> Printf.sprintf "%d" (int_of_n sc)) ids))
  | Panic _ -> "PANIC"

let exec (line : string) : string =
  let ws = words line in
  match ws with
  | "case" :: _ ->
      specs := []; entries := []; cur := []; news := []; cur_devs := []; new_devs := []; sticky := None; "-"
  | ["spec"; k; o; s] ->
      specs := !specs @ [{ sp_key = num k; sp_obj = opt_of o; sp_svcs = list_of s }]; "-"
  | ["new"] -> entries := disc_new !specs; "-"
  | "cur" :: _ ->
      let l = buses (String.sub line 4 (String.length line - 4)) in
      cur := l; news := []; cur_devs := []; new_devs := [];
      let acc = ref [] in
      List.iter (fun ev -> feed ev acc) l;
      cur_devs := List.rev !acc;
      (* everything the snapshot phase hands over is a creation, and the filters let it through *)
      if not (List.for_all is_creation l) then note "snapshot contains a destruction";
      let fs = disc_filters !entries in
      if not (List.for_all (matches_filters fs) l) then note "snapshot contains an event no filter matches";
      "-"
  | ["ev"; e] ->
      let ev = bus_of e in
      news := ev :: !news; feed ev new_devs;
      if not (matches_filters (disc_filters !entries) ev) then note ("event no filter matches: " ^ e);
      "-"
  | ["deliv"] ->
      (match first_illegal t_empty (!cur @ List.rev !news) N0 with
       | None -> ok_or "ok"
       | Some i -> Printf.sprintf "ILLEGAL at %d: %s" (int_of_n i) (bus_s (List.nth (!cur @ List.rev !news) (int_of_n i))))
  | "prefix" :: k :: _ | "events" :: k :: _ ->
      let k = int_of_string k in
      let rest = String.concat " " (List.tl (List.tl ws)) in
      let impl = if rest = "-" then [] else
        List.map (fun s ->
          let kind = if s.[0] = '+' then Created else Destroyed in
          match String.split_on_char '.' (String.sub s 1 (String.length s - 1)) with
          | [u; c] -> { de_key = n_of_int k; de_kind = kind; de_u = num u; de_c = num c }
          | _ -> failwith "dev") (words rest) in
      let mc = for_key k !cur_devs and mn = for_key k (List.rev !new_devs) in
      let n = List.length mc in
      let good =
        if List.hd ws = "events" then
          List.length impl = n + List.length mn && sub_multiset (take n impl) mc && drop n impl = mn
        else if List.length impl <= n then sub_multiset impl mc
        else sub_multiset (take n impl) mc && is_prefix (drop n impl) mn in
      if good then ok_or "ok"
      else Printf.sprintf "MISMATCH model snapshot{%s} then %s" (devs_s mc) (devs_s mn)
  | ["restart"] ->
      let r = disc_reset !entries in
      if r <> disc_new !specs then note "reset entries differ from fresh entries";
      entries := r; cur := []; news := []; cur_devs := []; new_devs := []; "-"
  | ["view"; k] ->
      let k = int_of_string k in
      let sp = List.find (fun sp -> int_of_n sp.sp_key = k) !specs in
      let e = List.find (fun e -> int_of_n (entry_key e) = k) !entries in
      (match !sticky with Some e -> e | None -> "view " ^ view_of sp e)
  | "lt" :: u :: c :: _ ->
      (match sections line with
       | [_; c1; n1] ->
           let cu = buses c1 and ne = buses n1 in
           let u = num u and c = num c in
           let legal = deliverableb (cu @ ne) && List.for_all is_creation cu && List.for_all (about u) (cu @ ne) in
           if not legal then "ILLEGAL lifetime stream"
           else (match lt_run (lt_new u c) (lt_stream cu ne) with
                 | LOk st -> Printf.sprintf "ended=%d" (if st.lt_ended then 1 else 0)
                 | LPanic _ -> "PANIC")
       | _ -> "?lt")
  | "find" :: o :: s :: _ ->
      (match sections line with
       | [_; c1; r] ->
           let cu = buses c1 in
           let sp = { sp_key = N0; sp_obj = opt_of o; sp_svcs = list_of s } in
           if not (deliverableb cu && List.for_all is_creation cu) then "ILLEGAL snapshot"
           else
             let m = find_object sp cu in
             let t = trun t_empty cu in
             let r = String.trim r in
             (match m with
              | Panic _ -> "PANIC"
              | Ok None -> if r = "none" then "ok" else "BAD model=none"
              | Ok (Some _) -> if r <> "none" && valid_at t sp (parse_found r) then "ok" else "BAD model=" ^ res_s m)
       | _ -> "?find")
  | "wait" :: o :: s :: _ ->
      (match sections line with
       | [_; c1; n1; r] ->
           let cu = buses c1 and ne = buses n1 in
           let sp = { sp_key = N0; sp_obj = opt_of o; sp_svcs = list_of s } in
           if not (deliverableb (cu @ ne) && List.for_all is_creation cu) then "ILLEGAL stream"
           else
             let r = String.trim r in
             (match find_object sp cu, find_object sp (cu @ ne) with
              | Panic _, _ | _, Panic _ -> "PANIC"
              | Ok (Some _), _ ->
                  (* a match in the snapshot: any object of the snapshot that matches is allowed *)
                  if r <> "none" && valid_at (trun t_empty cu) sp (parse_found r) then "ok" else "BAD snapshot match expected"
              | Ok None, Ok None -> if r = "none" then "ok" else "BAD model=none"
              | Ok None, (Ok (Some ((u, c), ids)) as m) ->
                  if r <> "none" && (let (u', c', ids') = parse_found r in
                                     u' = u && c' = c && List.map snd ids' = List.map snd ids)
                  then "ok" else "BAD model=" ^ res_s m)
       | _ -> "?wait")
  | [] -> "-"
  | w :: _ -> "?unknown-op " ^ w

let () =
  let ic = open_in Sys.argv.(1) and oc = open_out Sys.argv.(2) in
  (try
     while true do
       let line = input_line ic in
       let r = (try exec line with e -> "!MODEL-EXN " ^ Printexc.to_string e) in
       output_string oc r; output_char oc '\n'
     done
   with End_of_file -> ());
  close_in ic; close_out oc
