(* clientview_driver.ml — replays the sessions harness/src/bin/sched.rs observed at the clients'
   transports (`trace.txt`: `<case> T <client> [P <minor>] V <verdict> ; S <msg> ; R <msg> ; ...`,
   P = the protocol minor version that session negotiated, default argv 3) through the
   extracted acceptance automaton (clientview_model.ml: view0, replay_step) and compares the
   automaton's verdict with what the real `Client::run` did:
     real `ok`/`none` (returned Ok / still running): the automaton accepts every received message;
     real `rej` (UnexpectedMessageReceived): the automaton accepts all but the LAST received
          message and rejects that one;
     real `pan msg_*`: the automaton reports a panic site at the last received message
          (msg_close_channel_end_reply is exempt: its assertion depends on the `claimed` flag of
          the handle, which the wire does not show — see Proto/ClientView.v patch_close);
     real `pan <other fn>` / `err`: not a matter of the acceptance automaton (SKIP).
   A client that has decided to shut down ignores what it still receives (drain_transport), and
   the tap sees what the client sends only when it is flushed.  In a DISTURBED session (argv 4 =
   "disturbed") a message the automaton refuses although the client went on is therefore a
   disagreement only if the client never sent Shutdown in that session (otherwise SKIP: it may
   have been draining when the message arrived).  In an undisturbed session every refusal of the automaton is a disagreement.
   Output, one line per session: `AGREE|DISAGREE|SKIP <case> <client> real=<..> model=<..> recv=<n>`. *)
open Clientview_model

let rec pos_of_int i = if i = 1 then XH else if i land 1 = 0 then XO (pos_of_int (i lsr 1)) else XI (pos_of_int (i lsr 1))
let n_of_int i = if i = 0 then N0 else Npos (pos_of_int i)
let rec int_of_pos = function XH -> 1 | XO p -> 2 * int_of_pos p | XI p -> 2 * int_of_pos p + 1
let int_of_n = function N0 -> 0 | Npos p -> int_of_pos p
let n_of_string s = n_of_int (int_of_string s)
let optn s = if s = "-" then None else Some (n_of_string s)

let parse_endc = function
  | "S" :: rest -> CSender, rest
  | "R" :: c :: rest -> CReceiver (n_of_string c), rest
  | _ -> failwith "endc"
let parse_end = function "S" -> ESender | "R" -> EReceiver | _ -> failwith "end"
let parse_info = function
  | "BAD" :: _ -> None
  | "I" :: v :: t :: s :: _ ->
      Some { i_version = n_of_string v; i_type_id = optn t;
             i_sub_all = (match s with "-" -> None | "0" -> Some false | _ -> Some true) }
  | _ -> failwith "info"
let parse_filter = function
  | "O" :: o :: _ -> FObject (optn o)
  | "S" :: o :: s :: _ -> FService (optn o, optn s)
  | _ -> failwith "filter"
let parse_scope = function "Current" -> SCurrent | "New" -> SNew | "All" -> SAll | _ -> failwith "scope"
let parse_cres = function
  | "Ok" :: p :: _ -> CROk (n_of_string p) | "Err" :: p :: _ -> CRErr (n_of_string p)
  | "Aborted" :: _ -> CRAborted | "InvalidService" :: _ -> CRInvalidService
  | "InvalidFunction" :: _ -> CRInvalidFunction | "InvalidArgs" :: _ -> CRInvalidArgs
  | _ -> failwith "call result"
let parse_res3 = function "Ok" -> R3Ok | "Invalid" -> R3Invalid | "Foreign" -> R3Foreign | _ -> failwith "res3"
let parse_suball = function "Ok" -> SAOk | "Invalid" -> SAInvalid | "NotSupported" -> SANotSupported | _ -> failwith "suball"
let parse_event = function
  | ["OC"; u; c] -> EvObjectCreated (n_of_string u, n_of_string c)
  | ["OD"; u; c] -> EvObjectDestroyed (n_of_string u, n_of_string c)
  | ["SC"; a; b; c; d] -> EvServiceCreated (n_of_string a, n_of_string b, n_of_string c, n_of_string d)
  | ["SD"; a; b; c; d] -> EvServiceDestroyed (n_of_string a, n_of_string b, n_of_string c, n_of_string d)
  | _ -> failwith "bus event"

(* None = a line the automaton is not given (handshake, Shutdown: handled by run(), not handle_message) *)
let parse_msg (toks : string list) : msg option =
  let n = n_of_string in
  match toks with
  | ["Shutdown"] -> None
  | ["Other"] -> Some OtherToBroker   (* Connect/Connect2/ConnectReply/ConnectReply2 *)
  | ["CreateObject"; s; u] -> Some (CreateObject (n s, n u))
  | ["CreateObjectReply"; s; "Ok"; c] -> Some (CreateObjectReply (n s, COOk (n c)))
  | ["CreateObjectReply"; s; "Dup"] -> Some (CreateObjectReply (n s, CODuplicate))
  | ["DestroyObject"; s; c] -> Some (DestroyObject (n s, n c))
  | ["DestroyObjectReply"; s; r] -> Some (DestroyObjectReply (n s, parse_res3 r))
  | ["CreateService"; s; oc; u; v] -> Some (CreateService (n s, n oc, n u, n v))
  | "CreateService2" :: s :: oc :: u :: rest -> Some (CreateService2 (n s, n oc, n u, parse_info rest))
  | ["CreateServiceReply"; s; "Ok"; c] -> Some (CreateServiceReply (n s, CSOk (n c)))
  | ["CreateServiceReply"; s; "Dup"] -> Some (CreateServiceReply (n s, CSDuplicate))
  | ["CreateServiceReply"; s; "InvalidObject"] -> Some (CreateServiceReply (n s, CSInvalidObject))
  | ["CreateServiceReply"; s; "Foreign"] -> Some (CreateServiceReply (n s, CSForeign))
  | ["DestroyService"; s; c] -> Some (DestroyService (n s, n c))
  | ["DestroyServiceReply"; s; r] -> Some (DestroyServiceReply (n s, parse_res3 r))
  | ["CallFunction"; s; sc; f; p] -> Some (CallFunction (n s, n sc, n f, n p))
  | ["CallFunction2"; s; sc; f; v; p] -> Some (CallFunction2 (n s, n sc, n f, optn v, n p))
  | "CallFunctionReply" :: s :: rest -> Some (CallFunctionReply (n s, parse_cres rest))
  | ["SubscribeEvent"; s; sc; e] -> Some (SubscribeEvent (optn s, n sc, n e))
  | ["SubscribeEventReply"; s; r] -> Some (SubscribeEventReply (n s, r = "Ok"))
  | ["UnsubscribeEvent"; sc; e] -> Some (UnsubscribeEvent (n sc, n e))
  | ["EmitEvent"; sc; e; p] -> Some (EmitEvent (n sc, n e, n p))
  | ["QueryServiceVersion"; s; c] -> Some (QueryServiceVersion (n s, n c))
  | ["QueryServiceVersionReply"; s; "Ok"; v] -> Some (QueryServiceVersionReply (n s, Some (n v)))
  | ["QueryServiceVersionReply"; s; "Invalid"] -> Some (QueryServiceVersionReply (n s, None))
  | "CreateChannel" :: s :: rest -> Some (CreateChannel (n s, fst (parse_endc rest)))
  | ["CreateChannelReply"; s; c] -> Some (CreateChannelReply (n s, n c))
  | ["CloseChannelEnd"; s; c; e] -> Some (CloseChannelEnd (n s, n c, parse_end e))
  | ["CloseChannelEndReply"; s; r] -> Some (CloseChannelEndReply (n s, parse_res3 r))
  | ["ChannelEndClosed"; c; e] -> Some (ChannelEndClosed (n c, parse_end e))
  | "ClaimChannelEnd" :: s :: c :: rest -> Some (ClaimChannelEnd (n s, n c, fst (parse_endc rest)))
  | ["ClaimChannelEndReply"; s; "SenderClaimed"; c] -> Some (ClaimChannelEndReply (n s, CLSenderClaimed (n c)))
  | ["ClaimChannelEndReply"; s; "ReceiverClaimed"] -> Some (ClaimChannelEndReply (n s, CLReceiverClaimed))
  | ["ClaimChannelEndReply"; s; "Invalid"] -> Some (ClaimChannelEndReply (n s, CLInvalid))
  | ["ClaimChannelEndReply"; s; "Already"] -> Some (ClaimChannelEndReply (n s, CLAlready))
  | "ChannelEndClaimed" :: c :: rest -> Some (ChannelEndClaimed (n c, fst (parse_endc rest)))
  | ["AddChannelCapacity"; c; cap] -> Some (AddChannelCapacity (n c, n cap))
  | ["SendItem"; c; p] -> Some (SendItem (n c, n p))
  | ["ItemReceived"; c; p] -> Some (ItemReceived (n c, n p))
  | ["Sync"; s] -> Some (Sync (n s))
  | ["SyncReply"; s] -> Some (SyncReply (n s))
  | ["ServiceDestroyed"; c] -> Some (ServiceDestroyed (n c))
  | ["CreateBusListener"; s] -> Some (CreateBusListener (n s))
  | ["CreateBusListenerReply"; s; c] -> Some (CreateBusListenerReply (n s, n c))
  | ["DestroyBusListener"; s; c] -> Some (DestroyBusListener (n s, n c))
  | ["DestroyBusListenerReply"; s; r] -> Some (DestroyBusListenerReply (n s, r = "Ok"))
  | "AddBusListenerFilter" :: c :: rest -> Some (AddBusListenerFilter (n c, parse_filter rest))
  | "RemoveBusListenerFilter" :: c :: rest -> Some (RemoveBusListenerFilter (n c, parse_filter rest))
  | ["ClearBusListenerFilters"; c] -> Some (ClearBusListenerFilters (n c))
  | ["StartBusListener"; s; c; sc] -> Some (StartBusListener (n s, n c, parse_scope sc))
  | ["StartBusListenerReply"; s; r] ->
      Some (StartBusListenerReply (n s, match r with "Ok" -> STOk | "Invalid" -> STInvalid | "Already" -> STAlready | _ -> failwith "start result"))
  | ["StopBusListener"; s; c] -> Some (StopBusListener (n s, n c))
  | ["StopBusListenerReply"; s; r] ->
      Some (StopBusListenerReply (n s, match r with "Ok" -> SPOk | "Invalid" -> SPInvalid | "NotStarted" -> SPNotStarted | _ -> failwith "stop result"))
  | "EmitBusEvent" :: c :: rest -> Some (EmitBusEvent (optn c, parse_event rest))
  | ["BusListenerCurrentFinished"; c] -> Some (BusListenerCurrentFinished (n c))
  | ["AbortFunctionCall"; s] -> Some (AbortFunctionCall (n s))
  | ["RegisterIntrospection"] -> Some RegisterIntrospection
  | ["QueryIntrospection"; s] -> Some (QueryIntrospection (n s))
  | ["QueryIntrospectionReply"; s] -> Some (QueryIntrospectionReply (n s))
  | ["QueryServiceInfo"; s; c] -> Some (QueryServiceInfo (n s, n c))
  | ["QueryServiceInfoReply"; s; "Invalid"] -> Some (QueryServiceInfoReply (n s, QIInvalid))
  | "QueryServiceInfoReply" :: s :: rest ->
      (match parse_info rest with
       | Some i -> Some (QueryServiceInfoReply (n s, QIOk i))
       | None -> failwith "QueryServiceInfoReply BAD")
  | ["SubscribeService"; s; sc] -> Some (SubscribeService (n s, n sc))
  | ["SubscribeServiceReply"; s; r] -> Some (SubscribeServiceReply (n s, r = "Ok"))
  | ["UnsubscribeService"; sc] -> Some (UnsubscribeService (n sc))
  | ["SubscribeAllEvents"; s; sc] -> Some (SubscribeAllEvents (optn s, n sc))
  | ["SubscribeAllEventsReply"; s; r] -> Some (SubscribeAllEventsReply (n s, parse_suball r))
  | ["UnsubscribeAllEvents"; s; sc] -> Some (UnsubscribeAllEvents (optn s, n sc))
  | ["UnsubscribeAllEventsReply"; s; r] -> Some (UnsubscribeAllEventsReply (n s, parse_suball r))
  | k :: _ -> failwith ("unknown message " ^ k)
  | [] -> failwith "empty message"

let split_on_string sep s =
  let n = String.length sep in
  let rec go acc i j =
    if j + n > String.length s then List.rev (String.sub s i (String.length s - i) :: acc)
    else if String.sub s j n = sep then go (String.sub s i (j - i) :: acc) (j + n) (j + n)
    else go acc i (j + 1)
  in
  go [] 0 0

let words s = List.filter (fun x -> x <> "") (String.split_on_char ' ' s)

let () =
  let ic = open_in Sys.argv.(1) in
  let oc = open_out Sys.argv.(2) in
  let version = n_of_int (if Array.length Sys.argv > 3 then int_of_string Sys.argv.(3) else 20) in
  let disturbed = Array.length Sys.argv > 4 && Sys.argv.(4) = "disturbed" in
  (try
     while true do
       let line = input_line ic in
       match split_on_string " ; " line with
       | [] -> ()
       | head :: items ->
           let head_words =
             match words head with
             | case :: "T" :: client :: "P" :: minor :: "V" :: verdict ->
                 Some (case, client, n_of_int (int_of_string minor), verdict)
             | case :: "T" :: client :: "V" :: verdict -> Some (case, client, version, verdict)
             | _ -> None
           in
           (match head_words with
            | Some (case, client, version, verdict) ->
                let real = String.concat " " verdict in
                let v = ref (view0 version) in
                let nrecv = ref 0 in
                let last_recv = ref (-1) in
                let model = ref "ok" in
                let stop_at = ref (-1) in
                (* the first message in each direction is the handshake (before Client::run) *)
                let hs_sent = ref false and hs_recv = ref false in
                let last_shutdown = ref (-1) in
                (try
                   List.iteri
                     (fun idx item ->
                       match words item with
                       | dir :: toks ->
                           (match parse_msg toks with
                            | None -> if dir = "S" && toks = ["Shutdown"] then last_shutdown := idx
                            | Some OtherToBroker when dir = "S" && not !hs_sent -> hs_sent := true
                            | Some OtherToBroker when dir = "R" && not !hs_recv -> hs_recv := true
                            | Some m ->
                                if dir = "R" then (incr nrecv; last_recv := idx);
                                if !stop_at < 0 then begin
                                  let w = if dir = "S" then WSent m else WRecv m in
                                  let v', code = replay_step !v w in
                                  let code = int_of_n code in
                                  if code = 0 then v := v'
                                  else begin
                                    stop_at := idx;
                                    model := (if code = 1 then "rej" else Printf.sprintf "pan %d" (code - 2))
                                             ^ " at " ^ String.concat " " toks
                                  end
                                end)
                       | [] -> ())
                     items
                 with Failure e -> model := "PARSE " ^ e; stop_at := -2);
                let at_last = !stop_at = !last_recv in
                let starts p s = String.length s >= String.length p && String.sub s 0 (String.length p) = p in
                let res =
                  if !stop_at = -2 then "DISAGREE"
                  else if real = "ok" || real = "none" then
                    (if !stop_at < 0 then "AGREE" else if disturbed && !last_shutdown >= 0 then "SKIP" else "DISAGREE")
                  else if real = "rej" then (if starts "rej" !model && at_last then "AGREE" else "DISAGREE")
                  else if starts "pan msg_close_channel_end_reply" real then
                    (if !stop_at < 0 || (starts "pan" !model && at_last) then "SKIP" else "DISAGREE")
                  else if starts "pan msg_" real then (if starts "pan" !model && at_last then "AGREE" else "DISAGREE")
                  else "SKIP"
                in
                Printf.fprintf oc "%s %s %s real=%s model=%s recv=%d ver=%d\n" res case client real !model !nrecv (int_of_n version)
            | None -> ())
     done
   with End_of_file -> ());
  close_in ic;
  close_out oc
