(* broker_driver.ml — replays the traces written by harness/src/bin/broker.rs through the
   extracted broker model (broker_model.ml) and compares, step by step and per connection, the
   multiset of messages, the set of connections the broker closed, the gauges and the exit flag.
   Output: one line per history: `OK <seed> steps=<n>` or
   `DIVERGE <seed> step=<k> what=<...> | ev=<event> | impl=<...> | model=<...>` followed by the
   event prefix of the history (`  EV ...` lines) as the replay. *)
open Broker_model

let rec pos_of_int i = if i = 1 then XH else if i land 1 = 0 then XO (pos_of_int (i lsr 1)) else XI (pos_of_int (i lsr 1))
let n_of_int i = if i = 0 then N0 else Npos (pos_of_int i)
let rec int_of_pos = function XH -> 1 | XO p -> 2 * int_of_pos p | XI p -> 2 * int_of_pos p + 1
let int_of_n = function N0 -> 0 | Npos p -> int_of_pos p
let n_of_string s = n_of_int (int_of_string s)   (* all numbers in traces fit OCaml's 63-bit int *)
let string_of_n n = string_of_int (int_of_n n)
let rec int_of_nat = function O -> 0 | S k -> 1 + int_of_nat k

let optn s = if s = "-" then None else Some (n_of_string s)
let str_optn = function None -> "-" | Some n -> string_of_n n

(* ---------- parsing messages ---------- *)
let parse_endc = function
  | "S" :: rest -> CSender, rest
  | "R" :: c :: rest -> CReceiver (n_of_string c), rest
  | _ -> failwith "endc"
let parse_end = function "S" -> ESender | "R" -> EReceiver | _ -> failwith "end"
let parse_info = function
  | "BAD" :: _ -> None
  | "I" :: v :: t :: s :: _ ->
      Some { i_version = n_of_string v; i_type_id = optn t;
             i_sub_all = (match s with "-" -> None | "0" -> Some false | _ -> Some true) }
  | _ -> failwith "info"
let parse_filter = function
  | "O" :: o :: _ -> FObject (optn o)
  | "S" :: o :: s :: _ -> FService (optn o, optn s)
  | _ -> failwith "filter"
let parse_scope = function "Current" -> SCurrent | "New" -> SNew | "All" -> SAll | _ -> failwith "scope"
let parse_cres = function
  | "Ok" :: p :: _ -> CROk (n_of_string p) | "Err" :: p :: _ -> CRErr (n_of_string p)
  | "Aborted" :: _ -> CRAborted | "InvalidService" :: _ -> CRInvalidService
  | "InvalidFunction" :: _ -> CRInvalidFunction | "InvalidArgs" :: _ -> CRInvalidArgs
  | _ -> failwith "call result"

let parse_msg (toks : string list) : msg =
  let n = n_of_string in
  match toks with
  | ["CreateObject"; s; u] -> CreateObject (n s, n u)
  | ["DestroyObject"; s; c] -> DestroyObject (n s, n c)
  | ["CreateService"; s; oc; u; v] -> CreateService (n s, n oc, n u, n v)
  | "CreateService2" :: s :: oc :: u :: rest -> CreateService2 (n s, n oc, n u, parse_info rest)
  | ["DestroyService"; s; c] -> DestroyService (n s, n c)
  | ["CallFunction"; s; sc; f; p] -> CallFunction (n s, n sc, n f, n p)
  | ["CallFunction2"; s; sc; f; v; p] -> CallFunction2 (n s, n sc, n f, optn v, n p)
  | "CallFunctionReply" :: s :: rest -> CallFunctionReply (n s, parse_cres rest)
  | ["SubscribeEvent"; s; sc; e] -> SubscribeEvent (optn s, n sc, n e)
  | ["UnsubscribeEvent"; sc; e] -> UnsubscribeEvent (n sc, n e)
  | ["EmitEvent"; sc; e; p] -> EmitEvent (n sc, n e, n p)
  | ["QueryServiceVersion"; s; c] -> QueryServiceVersion (n s, n c)
  | "CreateChannel" :: s :: rest -> CreateChannel (n s, fst (parse_endc rest))
  | ["CloseChannelEnd"; s; c; e] -> CloseChannelEnd (n s, n c, parse_end e)
  | "ClaimChannelEnd" :: s :: c :: rest -> ClaimChannelEnd (n s, n c, fst (parse_endc rest))
  | ["AddChannelCapacity"; c; cap] -> AddChannelCapacity (n c, n cap)
  | ["SendItem"; c; p] -> SendItem (n c, n p)
  | ["Sync"; s] -> Sync (n s)
  | ["CreateBusListener"; s] -> CreateBusListener (n s)
  | ["DestroyBusListener"; s; c] -> DestroyBusListener (n s, n c)
  | "AddBusListenerFilter" :: c :: rest -> AddBusListenerFilter (n c, parse_filter rest)
  | "RemoveBusListenerFilter" :: c :: rest -> RemoveBusListenerFilter (n c, parse_filter rest)
  | ["ClearBusListenerFilters"; c] -> ClearBusListenerFilters (n c)
  | ["StartBusListener"; s; c; sc] -> StartBusListener (n s, n c, parse_scope sc)
  | ["StopBusListener"; s; c] -> StopBusListener (n s, n c)
  | ["AbortFunctionCall"; s] -> AbortFunctionCall (n s)
  | ["RegisterIntrospection"] -> RegisterIntrospection
  | ["QueryIntrospection"; s] -> QueryIntrospection (n s)
  | ["QueryIntrospectionReply"; s] -> QueryIntrospectionReply (n s)
  | ["QueryServiceInfo"; s; c] -> QueryServiceInfo (n s, n c)
  | ["SubscribeService"; s; sc] -> SubscribeService (n s, n sc)
  | ["UnsubscribeService"; sc] -> UnsubscribeService (n sc)
  | ["SubscribeAllEvents"; s; sc] -> SubscribeAllEvents (optn s, n sc)
  | ["UnsubscribeAllEvents"; s; sc] -> UnsubscribeAllEvents (optn s, n sc)
  (* kinds the broker never accepts: the model treats them all alike *)
  | ("CreateObjectReply" | "DestroyObjectReply" | "CreateServiceReply" | "DestroyServiceReply"
    | "SubscribeEventReply" | "QueryServiceVersionReply" | "CreateChannelReply"
    | "CloseChannelEndReply" | "ChannelEndClosed" | "ClaimChannelEndReply" | "ChannelEndClaimed"
    | "ItemReceived" | "SyncReply" | "ServiceDestroyed" | "CreateBusListenerReply"
    | "DestroyBusListenerReply" | "StartBusListenerReply" | "StopBusListenerReply" | "EmitBusEvent"
    | "BusListenerCurrentFinished" | "QueryServiceInfoReply" | "SubscribeServiceReply"
    | "SubscribeAllEventsReply" | "UnsubscribeAllEventsReply" | "Other") :: _ -> OtherToBroker
  | k :: _ -> failwith ("unknown message " ^ k)
  | [] -> failwith "empty message"

(* ---------- printing messages (same text as harness/src/msgfmt.rs) ---------- *)
let s = string_of_n
let pr_endc = function CSender -> "S" | CReceiver c -> "R " ^ s c
let pr_end = function ESender -> "S" | EReceiver -> "R"
let pr_info i = Printf.sprintf "I %s %s %s" (s i.i_version) (str_optn i.i_type_id)
    (match i.i_sub_all with None -> "-" | Some false -> "0" | Some true -> "1")
let pr_filter = function FObject o -> "O " ^ str_optn o | FService (o, sv) -> "S " ^ str_optn o ^ " " ^ str_optn sv
let pr_res3 = function R3Ok -> "Ok" | R3Invalid -> "Invalid" | R3Foreign -> "Foreign"
let pr_ok b = if b then "Ok" else "Invalid"
let pr_suball = function SAOk -> "Ok" | SAInvalid -> "Invalid" | SANotSupported -> "NotSupported"
let pr_event = function
  | EvObjectCreated (u, c) -> Printf.sprintf "OC %s %s" (s u) (s c)
  | EvObjectDestroyed (u, c) -> Printf.sprintf "OD %s %s" (s u) (s c)
  | EvServiceCreated (a, b, c, d) -> Printf.sprintf "SC %s %s %s %s" (s a) (s b) (s c) (s d)
  | EvServiceDestroyed (a, b, c, d) -> Printf.sprintf "SD %s %s %s %s" (s a) (s b) (s c) (s d)
let pr_cres = function
  | CROk p -> "Ok " ^ s p | CRErr p -> "Err " ^ s p | CRAborted -> "Aborted"
  | CRInvalidService -> "InvalidService" | CRInvalidFunction -> "InvalidFunction"
  | CRInvalidArgs -> "InvalidArgs"

let pr_msg (m : msg) : string =
  match m with
  | CreateObject (a, b) -> Printf.sprintf "CreateObject %s %s" (s a) (s b)
  | CreateObjectReply (a, COOk c) -> Printf.sprintf "CreateObjectReply %s Ok %s" (s a) (s c)
  | CreateObjectReply (a, CODuplicate) -> Printf.sprintf "CreateObjectReply %s Dup" (s a)
  | DestroyObject (a, b) -> Printf.sprintf "DestroyObject %s %s" (s a) (s b)
  | DestroyObjectReply (a, r) -> Printf.sprintf "DestroyObjectReply %s %s" (s a) (pr_res3 r)
  | CreateService (a, b, c, d) -> Printf.sprintf "CreateService %s %s %s %s" (s a) (s b) (s c) (s d)
  | CreateService2 (a, b, c, i) -> Printf.sprintf "CreateService2 %s %s %s %s" (s a) (s b) (s c)
      (match i with None -> "BAD" | Some i -> pr_info i)
  | CreateServiceReply (a, r) -> Printf.sprintf "CreateServiceReply %s %s" (s a)
      (match r with CSOk c -> "Ok " ^ s c | CSDuplicate -> "Dup" | CSInvalidObject -> "InvalidObject" | CSForeign -> "Foreign")
  | DestroyService (a, b) -> Printf.sprintf "DestroyService %s %s" (s a) (s b)
  | DestroyServiceReply (a, r) -> Printf.sprintf "DestroyServiceReply %s %s" (s a) (pr_res3 r)
  | CallFunction (a, b, c, d) -> Printf.sprintf "CallFunction %s %s %s %s" (s a) (s b) (s c) (s d)
  | CallFunction2 (a, b, c, v, d) -> Printf.sprintf "CallFunction2 %s %s %s %s %s" (s a) (s b) (s c) (str_optn v) (s d)
  | CallFunctionReply (a, r) -> Printf.sprintf "CallFunctionReply %s %s" (s a) (pr_cres r)
  | SubscribeEvent (a, b, c) -> Printf.sprintf "SubscribeEvent %s %s %s" (str_optn a) (s b) (s c)
  | SubscribeEventReply (a, ok) -> Printf.sprintf "SubscribeEventReply %s %s" (s a) (pr_ok ok)
  | UnsubscribeEvent (a, b) -> Printf.sprintf "UnsubscribeEvent %s %s" (s a) (s b)
  | EmitEvent (a, b, c) -> Printf.sprintf "EmitEvent %s %s %s" (s a) (s b) (s c)
  | QueryServiceVersion (a, b) -> Printf.sprintf "QueryServiceVersion %s %s" (s a) (s b)
  | QueryServiceVersionReply (a, r) -> Printf.sprintf "QueryServiceVersionReply %s %s" (s a)
      (match r with Some v -> "Ok " ^ s v | None -> "Invalid")
  | CreateChannel (a, e) -> Printf.sprintf "CreateChannel %s %s" (s a) (pr_endc e)
  | CreateChannelReply (a, c) -> Printf.sprintf "CreateChannelReply %s %s" (s a) (s c)
  | CloseChannelEnd (a, c, e) -> Printf.sprintf "CloseChannelEnd %s %s %s" (s a) (s c) (pr_end e)
  | CloseChannelEndReply (a, r) -> Printf.sprintf "CloseChannelEndReply %s %s" (s a) (pr_res3 r)
  | ChannelEndClosed (c, e) -> Printf.sprintf "ChannelEndClosed %s %s" (s c) (pr_end e)
  | ClaimChannelEnd (a, c, e) -> Printf.sprintf "ClaimChannelEnd %s %s %s" (s a) (s c) (pr_endc e)
  | ClaimChannelEndReply (a, r) -> Printf.sprintf "ClaimChannelEndReply %s %s" (s a)
      (match r with CLSenderClaimed c -> "SenderClaimed " ^ s c | CLReceiverClaimed -> "ReceiverClaimed"
                  | CLInvalid -> "Invalid" | CLAlready -> "Already")
  | ChannelEndClaimed (c, e) -> Printf.sprintf "ChannelEndClaimed %s %s" (s c) (pr_endc e)
  | AddChannelCapacity (c, cap) -> Printf.sprintf "AddChannelCapacity %s %s" (s c) (s cap)
  | SendItem (c, p) -> Printf.sprintf "SendItem %s %s" (s c) (s p)
  | ItemReceived (c, p) -> Printf.sprintf "ItemReceived %s %s" (s c) (s p)
  | Sync a -> "Sync " ^ s a
  | SyncReply a -> "SyncReply " ^ s a
  | ServiceDestroyed a -> "ServiceDestroyed " ^ s a
  | CreateBusListener a -> "CreateBusListener " ^ s a
  | CreateBusListenerReply (a, c) -> Printf.sprintf "CreateBusListenerReply %s %s" (s a) (s c)
  | DestroyBusListener (a, c) -> Printf.sprintf "DestroyBusListener %s %s" (s a) (s c)
  | DestroyBusListenerReply (a, ok) -> Printf.sprintf "DestroyBusListenerReply %s %s" (s a) (pr_ok ok)
  | AddBusListenerFilter (c, f) -> Printf.sprintf "AddBusListenerFilter %s %s" (s c) (pr_filter f)
  | RemoveBusListenerFilter (c, f) -> Printf.sprintf "RemoveBusListenerFilter %s %s" (s c) (pr_filter f)
  | ClearBusListenerFilters c -> "ClearBusListenerFilters " ^ s c
  | StartBusListener (a, c, sc) -> Printf.sprintf "StartBusListener %s %s %s" (s a) (s c)
      (match sc with SCurrent -> "Current" | SNew -> "New" | SAll -> "All")
  | StartBusListenerReply (a, r) -> Printf.sprintf "StartBusListenerReply %s %s" (s a)
      (match r with STOk -> "Ok" | STInvalid -> "Invalid" | STAlready -> "Already")
  | StopBusListener (a, c) -> Printf.sprintf "StopBusListener %s %s" (s a) (s c)
  | StopBusListenerReply (a, r) -> Printf.sprintf "StopBusListenerReply %s %s" (s a)
      (match r with SPOk -> "Ok" | SPInvalid -> "Invalid" | SPNotStarted -> "NotStarted")
  | EmitBusEvent (c, e) -> Printf.sprintf "EmitBusEvent %s %s" (str_optn c) (pr_event e)
  | BusListenerCurrentFinished c -> "BusListenerCurrentFinished " ^ s c
  | AbortFunctionCall a -> "AbortFunctionCall " ^ s a
  | RegisterIntrospection -> "RegisterIntrospection"
  | QueryIntrospection a -> "QueryIntrospection " ^ s a
  | QueryIntrospectionReply a -> "QueryIntrospectionReply " ^ s a
  | QueryServiceInfo (a, c) -> Printf.sprintf "QueryServiceInfo %s %s" (s a) (s c)
  | QueryServiceInfoReply (a, r) -> Printf.sprintf "QueryServiceInfoReply %s %s" (s a)
      (match r with QIOk i -> pr_info i | QIInvalid -> "Invalid")
  | SubscribeService (a, c) -> Printf.sprintf "SubscribeService %s %s" (s a) (s c)
  | SubscribeServiceReply (a, ok) -> Printf.sprintf "SubscribeServiceReply %s %s" (s a) (pr_ok ok)
  | UnsubscribeService c -> "UnsubscribeService " ^ s c
  | SubscribeAllEvents (a, c) -> Printf.sprintf "SubscribeAllEvents %s %s" (str_optn a) (s c)
  | SubscribeAllEventsReply (a, r) -> Printf.sprintf "SubscribeAllEventsReply %s %s" (s a) (pr_suball r)
  | UnsubscribeAllEvents (a, c) -> Printf.sprintf "UnsubscribeAllEvents %s %s" (str_optn a) (s c)
  | UnsubscribeAllEventsReply (a, r) -> Printf.sprintf "UnsubscribeAllEventsReply %s %s" (s a) (pr_suball r)
  | Shutdown -> "Shutdown"
  | OtherToBroker -> "Other"

(* ---------- events ---------- *)
let split s = String.split_on_char ' ' s |> List.filter (fun x -> x <> "")

type ev_parsed = { ev : event; fresh : n; bserial : n option }

let parse_event (line : string) : ev_parsed =
  match split line with
  | ["NEW"; c; v] -> { ev = NewConnection (n_of_string c, n_of_string v); fresh = N0; bserial = None }
  (* `SHUT c clean`: the client sent Shutdown first (the harness tells the two apart for replays;
     the broker sees ConnectionShutdown either way) *)
  | ["SHUT"; c] | ["SHUT"; c; "clean"] -> { ev = ConnectionShutdown (n_of_string c); fresh = N0; bserial = None }
  | ["SHUTC"; c] -> { ev = ShutdownConnection (n_of_string c); fresh = N0; bserial = None }
  | ["DROP"; c] -> { ev = DropTask (n_of_string c); fresh = N0; bserial = None }
  | ["SHUTB"] -> { ev = ShutdownBroker; fresh = N0; bserial = None }
  | ["SHUTI"] -> { ev = ShutdownIdleBroker; fresh = N0; bserial = None }
  | "MSG" :: c :: f :: b :: rest ->
      { ev = Message (n_of_string c, parse_msg rest); fresh = n_of_string f; bserial = optn b }
  | _ -> failwith ("event: " ^ line)

(* property a diverging message kind belongs to (first-divergence classification) *)
let class_of_kind k =
  match k with
  | "CallFunction" | "CallFunction2" | "CallFunctionReply" | "AbortFunctionCall" -> "C02"
  | "CreateObjectReply" | "DestroyObjectReply" | "CreateServiceReply" | "DestroyServiceReply"
  | "QueryServiceVersionReply" | "QueryServiceInfoReply" | "SubscribeServiceReply" -> "C03"
  | "EmitEvent" | "SubscribeEvent" | "SubscribeEventReply" | "UnsubscribeEvent"
  | "SubscribeAllEvents" | "SubscribeAllEventsReply" | "UnsubscribeAllEvents"
  | "UnsubscribeAllEventsReply" | "ServiceDestroyed" -> "C04"
  | "CreateChannelReply" | "CloseChannelEndReply" | "ChannelEndClosed" | "ClaimChannelEndReply"
  | "ChannelEndClaimed" | "AddChannelCapacity" | "ItemReceived" -> "C05"
  | "EmitBusEvent" | "BusListenerCurrentFinished" | "CreateBusListenerReply"
  | "DestroyBusListenerReply" | "StartBusListenerReply" | "StopBusListenerReply" -> "C10"
  | "Shutdown" -> "C09"
  | _ -> "C11"

let kind_of_text t = match split t with k :: _ -> k | [] -> ""

(* property an injected event belongs to: a panic or a wrongly closed connection while handling
   it is attributed to that property as well as to C11 *)
let class_of_event (ev : string) : string =
  match split ev with
  | "MSG" :: _ :: _ :: _ :: k :: _ ->
      (match k with
       | "CallFunction" | "CallFunction2" | "CallFunctionReply" | "AbortFunctionCall" -> "C02"
       | "CreateObject" | "DestroyObject" | "CreateService" | "CreateService2" | "DestroyService"
       | "QueryServiceVersion" | "QueryServiceInfo" | "SubscribeService" | "UnsubscribeService" -> "C03"
       | "SubscribeEvent" | "UnsubscribeEvent" | "EmitEvent" | "SubscribeAllEvents" | "UnsubscribeAllEvents" -> "C04"
       | "CreateChannel" | "CloseChannelEnd" | "ClaimChannelEnd" | "AddChannelCapacity" | "SendItem" -> "C05"
       | "CreateBusListener" | "DestroyBusListener" | "AddBusListenerFilter" | "RemoveBusListenerFilter"
       | "ClearBusListenerFilters" | "StartBusListener" | "StopBusListener" -> "C10"
       | _ -> "C11")
  | ("NEW" | "SHUT" | "SHUTC" | "DROP" | "SHUTB" | "SHUTI") :: _ -> "C09"
  | _ -> "C11"

(* which connections are version-gated away from a kind: used for the C12 classification *)
let gated_kinds = ["CallFunction2"; "AbortFunctionCall"; "QueryIntrospectionReply"; "QueryServiceInfoReply";
                   "SubscribeServiceReply"; "SubscribeAllEvents"; "SubscribeAllEventsReply";
                   "UnsubscribeAllEvents"; "UnsubscribeAllEventsReply"]

(* C12 monitors on the implementation's own inputs and outputs, against the specification table
   Broker/GateSpec.v (extracted; independent of the gates the model takes from broker.rs) *)
let out_kind_min (k : string) : int =
  let z = N0 in
  let m = match k with
    | "CallFunction2" -> Some (CallFunction2 (z, z, z, None, z))
    | "AbortFunctionCall" -> Some (AbortFunctionCall z)
    | "QueryIntrospectionReply" -> Some (QueryIntrospectionReply z)
    | "QueryServiceInfoReply" -> Some (QueryServiceInfoReply (z, QIInvalid))
    | "SubscribeServiceReply" -> Some (SubscribeServiceReply (z, true))
    | "SubscribeAllEvents" -> Some (SubscribeAllEvents (None, z))
    | "SubscribeAllEventsReply" -> Some (SubscribeAllEventsReply (z, SAOk))
    | "UnsubscribeAllEvents" -> Some (UnsubscribeAllEvents (None, z))
    | "UnsubscribeAllEventsReply" -> Some (UnsubscribeAllEventsReply (z, SAOk))
    | _ -> None in
  match m with Some x -> int_of_n (msg_min_version x) | None -> int_of_n (msg_min_version (Sync z))

type step_obs = { outs : (int * string) list; closed : int list; stats : string; exit_ : string }

let () =
  let ic = open_in Sys.argv.(1) in
  let oc = open_out Sys.argv.(2) in
  let histories = ref 0 and steps_total = ref 0 and diverged = ref 0 in
  let cur_seed = ref "" in
  let state = ref init in
  let dropped : (int, unit) Hashtbl.t = Hashtbl.create 8 in
  let vers : (int, int) Hashtbl.t = Hashtbl.create 8 in   (* negotiated minor version per connection, from the trace *)
  let evlog = ref [] in
  let dead = ref false in     (* history already diverged: skip the rest *)
  let cur_ev = ref None in
  let obs_outs = ref [] and obs_closed = ref [] and obs_stats = ref "" and obs_exit = ref "" in
  let steps = ref 0 in
  let report what ev impl model =
    incr diverged; dead := true;
    Printf.fprintf oc "DIVERGE %s step=%d what=%s | ev=%s | impl=%s | model=%s\n" !cur_seed !steps what ev impl model;
    List.iter (fun e -> Printf.fprintf oc "  EV %s\n" e) (List.rev !evlog) in
  (* a gauge-only divergence (same messages, same closed connections, different counters) is recorded
     but the history goes on WITHOUT further gauge comparisons: what clients see later (e.g. a
     registry that still holds an object of a connection that is gone) belongs to other properties
     and is reported when it shows in the messages *)
  let gauges_off = ref false in
  let report_soft what ev impl model =
    incr diverged; gauges_off := true;
    Printf.fprintf oc "DIVERGE %s step=%d what=%s | ev=%s | impl=%s | model=%s\n" !cur_seed !steps what ev impl model;
    List.iter (fun e -> Printf.fprintf oc "  EV %s\n" e) (List.rev !evlog) in
  let finish_step () =
    match !cur_ev with
    | None -> ()
    | Some line when not !dead ->
        incr steps; incr steps_total;
        evlog := line :: !evlog;
        (try
          let p = parse_event line in
          (match p.ev with DropTask c -> Hashtbl.replace dropped (int_of_n c) () | _ -> ());
          (match p.ev with NewConnection (c, v) -> Hashtbl.replace vers (int_of_n c) (int_of_n v) | _ -> ());
          (* C12 gate-out, on the implementation alone: no message kind newer than the receiver's version *)
          List.iter (fun (c, t) ->
            let k = kind_of_text t in
            match Hashtbl.find_opt vers c with
            | Some v when not !dead && out_kind_min k > v ->
                report (Printf.sprintf "C12:implementation-sent-%s(since-1.%d)-to-a-connection-that-negotiated-1.%d" k (out_kind_min k) v)
                  line (Printf.sprintf "%d:%s" c t) "-"
            | _ -> ()) !obs_outs;
          (* C10 order, on the implementation alone (outputs are otherwise compared as multisets): per
             connection, in the order the connection received this step's messages, a service's bus
             events lie inside its object's lifetime - no ServiceDestroyed after the ObjectDestroyed of
             its object, no ServiceCreated before its ObjectCreated (the model's order: C10_order) *)
          if not !dead then begin
            let seen = Hashtbl.create 7 in
            List.iter (fun (c, t) ->
              match String.split_on_char ' ' t with
              | "EmitBusEvent" :: _ :: k :: u :: ck :: _ ->
                  (match k with
                   | "OD" -> Hashtbl.replace seen (c, "OD", u, ck) ()
                   | "SC" -> Hashtbl.replace seen (c, "SC", u, ck) ()
                   | "SD" when Hashtbl.mem seen (c, "OD", u, ck) ->
                       report "C10:implementation-sent-ServiceDestroyed-after-the-ObjectDestroyed-of-its-object-to-one-connection"
                         line (String.concat "; " (List.rev_map (fun (c, t) -> Printf.sprintf "%d:%s" c t) !obs_outs)) "-"
                   | "OC" when Hashtbl.mem seen (c, "SC", u, ck) ->
                       report "C10:implementation-sent-ServiceCreated-before-the-ObjectCreated-of-its-object-to-one-connection"
                         line (String.concat "; " (List.rev_map (fun (c, t) -> Printf.sprintf "%d:%s" c t) !obs_outs)) "-"
                   | _ -> ())
              | _ -> ()) (List.rev !obs_outs)
          end;
          (* C12 gate-in, on the implementation alone: a message newer than the sender's version closes the sender *)
          (match p.ev with
           | Message (c, x) when not !dead && not (Hashtbl.mem dropped (int_of_n c)) ->
               (match min_version_of x, Hashtbl.find_opt vers (int_of_n c) with
                | Some need, Some v when int_of_n need > v && not (List.mem (int_of_n c) !obs_closed) ->
                    report (Printf.sprintf "C12:connection-on-1.%d-sent-a-kind-introduced-in-1.%d-and-was-not-closed" v (int_of_n need))
                      line (String.concat "," (List.map string_of_int !obs_closed)) "-"
                | _ -> ())
           | _ -> ());
          if !dead then raise Exit;
          let before = List.map int_of_n (conn_ids !state) in
          (match step !state p.ev p.fresh p.bserial with
           | Panic site when int_of_n site = 20
                             && (match p.ev with Message (_, (CallFunction _ | CallFunction2 _)) -> true | _ -> false) ->
               (* call_impl: the serial SerialMap::insert chose (read off the callee's trace) is not the
                  one the model's allocator sm_choice (Broker/Model.v) picks in this state *)
               let expected = (match sm_choice !state with
                 | Some (b, _) -> string_of_int (int_of_n b) | None -> "none(2^32-calls-pending)") in
               let observed = (match p.bserial with Some b -> string_of_int (int_of_n b) | None -> "unobserved") in
               report (Printf.sprintf "C02:broker-serial-differs-from-SerialMap-model(expected-%s,implementation-chose-%s)" expected observed)
                 line (String.concat "; " (List.map (fun (c, t) -> Printf.sprintf "%d:%s" c t) !obs_outs)) "-"
           | Panic site ->
               report (Printf.sprintf "C11+%s:model-panic-site-%d(the-implementation-reached-a-state-the-model-calls-inconsistent)" (class_of_event line) (int_of_n site))
                 line (String.concat "; " (List.map (fun (c, t) -> Printf.sprintf "%d:%s" c t) !obs_outs)) "-"
           | Fail _ -> report "C11:model-fail" line "-" "-"
           | Done (st', outs) ->
               state := st';
               let after = List.map int_of_n (conn_ids st') in
               let removed = List.filter (fun c -> not (List.mem c after) && not (Hashtbl.mem dropped c)) before in
               (* the connection that disconnected itself is not reported as closed by the harness *)
               let removed = (match p.ev with
                 | ConnectionShutdown c | ShutdownConnection c -> List.filter (fun x -> x <> int_of_n c) removed
                 | ShutdownBroker -> []   (* every client got Shutdown (compared above) and left by itself *)
                 | _ -> removed) in
               let mouts = List.map (fun ((c, m), _) -> (int_of_n c, pr_msg m)) outs in
               (* messages to task-dropped connections are invisible on both sides; a Shutdown to
                  the connection that is being shut down by the harness is consumed by it *)
               let mouts = List.filter (fun (c, _) -> not (Hashtbl.mem dropped c)) mouts in
               let mouts = (match p.ev with
                 | ShutdownConnection c | ConnectionShutdown c ->
                     List.filter (fun (d, t) -> not (d = int_of_n c && t = "Shutdown")) mouts
                 | _ -> mouts) in
               let iouts = (match p.ev with
                 | ShutdownConnection c -> List.filter (fun (d, t) -> not (d = int_of_n c && t = "Shutdown")) !obs_outs
                 | _ -> !obs_outs) in
               (* ShutdownBroker removes every connection in the hash map's iteration order; the
                  notifications they get about each other depend on that order and go to
                  connections that are being shut down anyway: only the Shutdown messages count *)
               let only_shutdown l = List.filter (fun (_, t) -> t = "Shutdown") l in
               let mouts, iouts = (match p.ev with
                 | ShutdownBroker -> only_shutdown mouts, only_shutdown iouts
                 | _ -> mouts, iouts) in
               let canon l = List.sort compare l in
               let a = canon iouts and b = canon mouts in
               if a <> b then begin
                 (* first differing message decides the class *)
                 let only_a = List.filter (fun x -> not (List.mem x b)) a
                 and only_b = List.filter (fun x -> not (List.mem x a)) b in
                 let pick = match only_a, only_b with x :: _, _ -> x | [], y :: _ -> y | [], [] -> (0, "count") in
                 let k = kind_of_text (snd pick) in
                 let cls = class_of_kind k in
                 let cls = if List.mem k gated_kinds then cls ^ "+C12" else cls in
                 (* the step of a connection that has ended (its task was dropped with this request still queued, or
                    the event is a disconnect): what peers are told / what is released is C09's clause as well *)
                 let ending = (match p.ev with
                   | Message (c, _) -> Hashtbl.mem dropped (int_of_n c)
                   | ConnectionShutdown _ | ShutdownConnection _ | DropTask _ | ShutdownBroker -> true
                   | _ -> false) in
                 let cls = if ending && not (String.length cls >= 3 && (let rec has i = i + 3 <= String.length cls && (String.sub cls i 3 = "C09" || has (i + 1)) in has 0)) then cls ^ "+C09" else cls in
                 report (Printf.sprintf "%s:outputs-differ(%s)" cls k) line
                   (String.concat "; " (List.map (fun (c, t) -> Printf.sprintf "%d:%s" c t) a))
                   (String.concat "; " (List.map (fun (c, t) -> Printf.sprintf "%d:%s" c t) b))
               end else begin
                 let ca = (match p.ev with ShutdownBroker -> [] | _ -> List.sort compare !obs_closed)
                 and cb = List.sort compare removed in
                 if ca <> cb then
                   report (Printf.sprintf "C09+C11+C12+%s:closed-connections-differ" (class_of_event line)) line
                     (String.concat "," (List.map string_of_int ca)) (String.concat "," (List.map string_of_int cb))
                 else begin
                   let g = st st' in
                   let ms = Printf.sprintf "%d %d %d %d %d" (int_of_n g.n_conns) (int_of_n g.n_objs)
                       (int_of_n g.n_svcs) (int_of_n g.n_chans) (int_of_n g.n_lis) in
                   let truth = Printf.sprintf "%d %d %d %d %d" (int_of_nat (map_size_conns st'))
                       (int_of_nat (map_size_objs st')) (int_of_nat (map_size_svcs st'))
                       (int_of_nat (map_size_chans st')) (int_of_nat (map_size_lis st')) in
                   if not !gauges_off && !obs_stats <> "-" && !obs_stats <> ms then
                     report_soft "C09:gauges-differ-from-model-gauges" line !obs_stats ms
                   else if not !gauges_off && !obs_stats <> "-" && !obs_stats <> truth then
                     (* the property itself: gauges = true numbers of live entities *)
                     report_soft "C09:gauges-differ-from-true-counts" line !obs_stats truth
                   else begin
                     let mex = if exits st' then "1" else "0" in
                     if !obs_exit <> mex then report "C09:exit-flag-differs" line !obs_exit mex
                     else if mex = "1" &&
                             (int_of_nat (map_size_objs st') + int_of_nat (map_size_svcs st')
                              + int_of_nat (map_size_calls st') > 0) && int_of_nat (map_size_conns st') = 0 then
                       report "C09:residual-state-at-exit" line "-" truth
                   end
                 end
               end)
        with Failure m -> report ("DRIVER:" ^ m) line "-" "-" | Exit -> ())
    | Some _ -> () in
  (try
    while true do
      let line = input_line ic in
      let len = String.length line in
      if len >= 5 && String.sub line 0 5 = "HIST " then begin
        cur_seed := String.sub line 5 (len - 5);
        state := init; Hashtbl.reset dropped; Hashtbl.reset vers; gauges_off := false; evlog := []; dead := false; steps := 0; incr histories
      end else if len >= 3 && String.sub line 0 3 = "EV " then begin
        cur_ev := Some (String.sub line 3 (len - 3)); obs_outs := []; obs_closed := []; obs_stats := ""; obs_exit := ""
      end else if len >= 4 && String.sub line 0 4 = "OUT " then begin
        let rest = String.sub line 4 (len - 4) in
        let i = String.index rest ' ' in
        obs_outs := (int_of_string (String.sub rest 0 i), String.sub rest (i + 1) (String.length rest - i - 1)) :: !obs_outs
      end else if len >= 7 && String.sub line 0 7 = "CLOSED " then
        obs_closed := int_of_string (String.sub line 7 (len - 7)) :: !obs_closed
      else if len >= 6 && String.sub line 0 6 = "STATS " then obs_stats := String.sub line 6 (len - 6)
      else if len >= 5 && String.sub line 0 5 = "EXIT " then obs_exit := String.sub line 5 (len - 5)
      else if line = "END" then (finish_step (); cur_ev := None)
      else if len >= 4 && String.sub line 0 4 = "EVP " then begin
        (* the operation during which the implementation panicked *)
        cur_ev := Some (String.sub line 4 (len - 4));
        if not !dead then evlog := String.sub line 4 (len - 4) :: !evlog
      end else if len >= 6 && String.sub line 0 6 = "PANIC " then begin
        if not !dead then begin
          let e = (match !cur_ev with Some e -> e | None -> (match !evlog with e :: _ -> e | [] -> "-")) in
          report (Printf.sprintf "C11+%s:implementation-panic" (class_of_event e)) e line "-";
          cur_ev := None
        end
      end else if len >= 8 && String.sub line 0 8 = "MONITOR " then begin
        (* a property monitor of the harness on the implementation alone: "MONITOR <classes> <what>",
           written just before the EV line of the step it belongs to *)
        if not !dead then begin
          let rest = String.sub line 8 (len - 8) in
          let i = (try String.index rest ' ' with Not_found -> String.length rest) in
          let cls = String.sub rest 0 i in
          let what = if i < String.length rest then String.sub rest (i + 1) (String.length rest - i - 1) else "" in
          report (cls ^ ":" ^ what) (match !evlog with e :: _ -> e | [] -> "-") line "-"
        end
      end else if len >= 13 && String.sub line 0 13 = "HARNESS-ERROR" then begin
        if not !dead then report "HARNESS" "-" line "-"
      end else if line = "HISTEND" then begin
        if not !dead && not !gauges_off then Printf.fprintf oc "OK %s steps=%d\n" !cur_seed !steps
      end
    done
  with End_of_file -> ());
  Printf.fprintf oc "SUMMARY histories=%d steps=%d diverged=%d\n" !histories !steps_total !diverged;
  close_in ic; close_out oc
