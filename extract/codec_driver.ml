(* codec_driver.ml — runs the extracted codec model (codec_model.ml) on a cases file:
   one op per line, one result per line, same syntax as harness/src/bin/codec.rs. *)
open Codec_model

(* ---------- numbers: Coq positive/N/Z <-> OCaml ---------- *)
let rec pos_of_int i = if i = 1 then XH else if i land 1 = 0 then XO (pos_of_int (i lsr 1)) else XI (pos_of_int (i lsr 1))
let n_of_int i = if i = 0 then N0 else Npos (pos_of_int i)
let rec int_of_pos = function XH -> 1 | XO p -> 2 * int_of_pos p | XI p -> 2 * int_of_pos p + 1
let int_of_n = function N0 -> 0 | Npos p -> int_of_pos p

(* decimal string (non-negative) -> N, by repeated halving of the digit array *)
let n_of_dec (s : string) : n =
  let digits = Array.init (String.length s) (fun i -> Char.code s.[i] - 48) in
  let len = Array.length digits in
  let is_zero () = Array.for_all (fun d -> d = 0) digits in
  let halve () =
    let carry = ref 0 in
    for i = 0 to len - 1 do
      let cur = !carry * 10 + digits.(i) in
      digits.(i) <- cur / 2; carry := cur mod 2
    done; !carry in
  let rec bits acc = if is_zero () then List.rev acc else let b = halve () in bits (b :: acc) in
  let bs = bits [] in (* least significant first *)
  let rec build = function
    | [] -> None
    | b :: rest -> (match build rest with
        | None -> if b = 1 then Some XH else None
        | Some p -> Some (if b = 1 then XI p else XO p)) in
  match build bs with None -> N0 | Some p -> Npos p

let z_of_dec (s : string) : z =
  if String.length s > 0 && s.[0] = '-' then
    (match n_of_dec (String.sub s 1 (String.length s - 1)) with N0 -> Z0 | Npos p -> Zneg p)
  else (match n_of_dec s with N0 -> Z0 | Npos p -> Zpos p)

(* positive -> decimal string by double-and-add on a little-endian digit list *)
let dec_of_pos (p : positive) : string =
  let rec bits p acc = match p with XH -> 1 :: acc | XO q -> bits q (0 :: acc) | XI q -> bits q (1 :: acc) in
  let bs = bits p [] in (* most significant first *)
  let double_add digs b =
    let carry = ref b in
    let r = List.map (fun d -> let v = 2 * d + !carry in carry := v / 10; v mod 10) digs in
    if !carry > 0 then r @ [!carry] else r in
  let digs = List.fold_left double_add [0] bs in
  String.concat "" (List.rev_map string_of_int digs)
let dec_of_n = function N0 -> "0" | Npos p -> dec_of_pos p
let dec_of_z = function Z0 -> "0" | Zpos p -> dec_of_pos p | Zneg p -> "-" ^ dec_of_pos p

(* ---------- bytes ---------- *)
let byte_tab = Array.init 256 n_of_int
let hexval c = match c with '0'..'9' -> Char.code c - 48 | 'a'..'f' -> Char.code c - 87 | 'A'..'F' -> Char.code c - 55 | _ -> failwith "hex"
let bytes_of_hex (s : string) : n list =
  let len = String.length s / 2 in
  let rec go i acc = if i < 0 then acc else go (i - 1) (byte_tab.(16 * hexval s.[2*i] + hexval s.[2*i+1]) :: acc) in
  go (len - 1) []
let hex_of_bytes (l : n list) : string =
  let b = Buffer.create 64 in
  List.iter (fun x -> Buffer.add_string b (Printf.sprintf "%02x" (int_of_n x))) l;
  Buffer.contents b

(* ---------- value text ---------- *)
let intk_of_string = function
  | "U8" -> U8 | "I8" -> I8 | "U16" -> U16 | "I16" -> I16 | "U32" -> U32 | "I32" -> I32
  | "U64" -> U64 | "I64" -> I64 | s -> failwith ("intk " ^ s)
let string_of_intk = function
  | U8 -> "U8" | I8 -> "I8" | U16 -> "U16" | I16 -> "I16" | U32 -> "U32" | I32 -> "I32"
  | U64 -> "U64" | I64 -> "I64"
let keyk_of_string = function "Str" -> KStr | "Uuid" -> KUuid | s -> KInt (intk_of_string s)
let string_of_keyk = function KStr -> "Str" | KUuid -> "Uuid" | KInt i -> string_of_intk i
let fixk_of_string = function
  | "F32" -> F32 | "F64" -> F64 | "Uuid" -> FUuid | "ObjectId" -> FObjectId
  | "ServiceId" -> FServiceId | "Sender" -> FSender | "Receiver" -> FReceiver | s -> failwith ("fixk " ^ s)
let string_of_fixk = function
  | F32 -> "F32" | F64 -> "F64" | FUuid -> "Uuid" | FObjectId -> "ObjectId"
  | FServiceId -> "ServiceId" | FSender -> "Sender" | FReceiver -> "Receiver"

let parse_value (s : string) : value =
  let pos = ref 0 in
  let len = String.length s in
  let peek () = if !pos < len then s.[!pos] else '\000' in
  let adv () = incr pos in
  let expect c = if peek () <> c then failwith (Printf.sprintf "expected %c at %d" c !pos) else adv () in
  let token stop = (* read until one of the stop chars *)
    let st = !pos in
    while !pos < len && not (String.contains stop s.[!pos]) do incr pos done;
    String.sub s st (!pos - st) in
  let key kk = let t = token ",=}" in
    match kk with KInt _ -> KeyZ (z_of_dec t)
    | _ -> KeyB (bytes_of_hex (String.sub t 1 (String.length t - 1))) in
  let rec value () =
    match peek () with
    | 'n' -> adv (); VNone
    | 's' -> adv (); expect '('; let v = value () in expect ')'; VSome v
    | 'b' -> adv (); let c = peek () in adv (); VBool (c = '1')
    | 'i' -> adv (); let k = token ":" in expect ':'; let t = token ",)]}=" in VInt (intk_of_string k, z_of_dec t)
    | 'x' -> adv (); let k = token ":" in expect ':'; let t = token ",)]}=" in VFixed (fixk_of_string k, bytes_of_hex t)
    | 't' -> adv (); expect ':'; let t = token ",)]}=" in VString (bytes_of_hex t)
    | 'y' -> adv (); expect ':'; let t = token ",)]}=" in VBytes (bytes_of_hex t)
    | 'v' -> adv (); expect '[';
        let rec items acc = if peek () = ']' then (adv (); List.rev acc)
          else begin (if acc <> [] then expect ','); let v = value () in items (v :: acc) end in
        VVec (items [])
    | 'm' -> adv (); let k = keyk_of_string (token "{") in expect '{';
        let rec items acc = if peek () = '}' then (adv (); List.rev acc)
          else begin (if acc <> [] then expect ','); let ky = key k in expect '='; let v = value () in items ((ky, v) :: acc) end in
        VMap (k, items [])
    | 'e' -> adv (); let k = keyk_of_string (token "{") in expect '{';
        let rec items acc = if peek () = '}' then (adv (); List.rev acc)
          else begin (if acc <> [] then expect ','); let ky = key k in items (ky :: acc) end in
        VSet (k, items [])
    | 'r' -> adv (); expect '{';
        let rec items acc = if peek () = '}' then (adv (); List.rev acc)
          else begin (if acc <> [] then expect ','); let id = n_of_dec (token "=") in expect '='; let v = value () in items ((id, v) :: acc) end in
        VStruct (items [])
    | 'u' -> adv (); let id = n_of_dec (token "(") in expect '('; let v = value () in expect ')'; VEnum (id, v)
    | c -> failwith (Printf.sprintf "unexpected %c at %d" c !pos)
  in
  let v = value () in
  if !pos <> len then failwith "trailing text"; v

let key_text = function KeyZ z -> dec_of_z z | KeyB l -> "h" ^ hex_of_bytes l

(* canonical printing: entries sorted by printed key (same rule as the harness) *)
let rec print_value (v : value) : string =
  match v with
  | VNone -> "n"
  | VSome x -> "s(" ^ print_value x ^ ")"
  | VBool b -> if b then "b1" else "b0"
  | VInt (i, z) -> "i" ^ string_of_intk i ^ ":" ^ dec_of_z z
  | VFixed (f, bs) -> "x" ^ string_of_fixk f ^ ":" ^ hex_of_bytes bs
  | VString s -> "t:" ^ hex_of_bytes s
  | VBytes s -> "y:" ^ hex_of_bytes s
  | VVec l -> "v[" ^ String.concat "," (List.map print_value l) ^ "]"
  | VMap (k, l) ->
      let es = List.map (fun (ky, x) -> (key_text ky, x)) l in
      let es = List.sort (fun (a, _) (b, _) -> compare a b) es in
      "m" ^ string_of_keyk k ^ "{" ^ String.concat "," (List.map (fun (a, x) -> a ^ "=" ^ print_value x) es) ^ "}"
  | VSet (k, l) ->
      let es = List.sort compare (List.map key_text l) in
      "e" ^ string_of_keyk k ^ "{" ^ String.concat "," es ^ "}"
  | VStruct l ->
      let es = List.map (fun (id, x) -> (dec_of_n id, x)) l in
      let es = List.sort (fun (a, _) (b, _) -> compare a b) es in
      "r{" ^ String.concat "," (List.map (fun (a, x) -> a ^ "=" ^ print_value x) es) ^ "}"
  | VEnum (id, x) -> "u" ^ dec_of_n id ^ "(" ^ print_value x ^ ")"

let err_text = function
  | Eoi -> "!Eoi" | Invalid -> "!Invalid" | UnexpectedValue -> "!UnexpectedValue"
  | TooDeep -> "!TooDeep" | TrailingData -> "!TrailingData"
  | MoreElementsRemain -> "!MoreElementsRemain" | NoMoreElements -> "!NoMoreElements"
  | Overflow -> "!Overflow" | InvalidVersion -> "!InvalidVersion" | Fuel -> "!FUEL"

let res f = function Ok a -> f a | Err e -> err_text e

(* C13: `conv FROM TO HEX` (FROM = none | MAJ.MIN, TO = MAJ.MIN) -> hex | !Err;
   `v1only HEX` -> 1 | 0 *)
let version_of_string (s : string) : n * n =
  match String.index_opt s '.' with
  | None -> failwith ("version " ^ s)
  | Some i -> (n_of_dec (String.sub s 0 i), n_of_dec (String.sub s (i + 1) (String.length s - i - 1)))
let run_conv (op : string) (arg : string) : string =
  match op, String.split_on_char ' ' arg with
  | "conv", [f; t; h] ->
      if h = "" then "!Empty" else
      let from = if f = "none" then None else Some (version_of_string f) in
      res hex_of_bytes (convert_api from (version_of_string t) (bytes_of_hex h))
  | "v1only", [h] -> if v1_only (bytes_of_hex h) then "1" else "0"
  | _ -> "!DRIVER bad conv line"

let run_line (line : string) : string =
  let sp = String.index_opt line ' ' in
  let op, arg = match sp with
    | None -> line, ""
    | Some i -> String.sub line 0 i, String.sub line (i + 1) (String.length line - i - 1) in
  match op with
  | "ser2" -> res hex_of_bytes (serialize E2 (parse_value arg))
  | "ser1" -> res hex_of_bytes (serialize E1 (parse_value arg))
  | "raw2" -> hex_of_bytes (ser_raw E2 (parse_value arg))
  | "raw1" -> hex_of_bytes (ser_raw E1 (parse_value arg))
  | "dec" -> if arg = "" then "!Empty" else res print_value (de_as_value true (bytes_of_hex arg))
  | "skip" -> if arg = "" then "!Empty" else res dec_of_n (value_len (bytes_of_hex arg))
  | "split" -> if arg = "" then "!Empty" else res hex_of_bytes (de_as_serialized (bytes_of_hex arg))
  | "kind" -> if arg = "" then "!Empty" else res (fun k -> dec_of_n (kind_byte k)) (peek_kind (bytes_of_hex arg))
  | "conv" | "v1only" -> run_conv op arg
  | _ -> "!UnknownOp " ^ op

let () =
  let ic = open_in Sys.argv.(1) in
  let oc = open_out Sys.argv.(2) in
  (try
    while true do
      let line = input_line ic in
      let out = try run_line line with Failure m -> "!DRIVER " ^ m | Stack_overflow -> "!DRIVER stack" in
      output_string oc out; output_char oc '\n'
    done
  with End_of_file -> ());
  close_in ic; close_out oc
