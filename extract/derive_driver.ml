(* derive_driver.ml — runs the extracted derive-contract model (derive_model.ml) on a cases file.
     derive_driver <cases.txt> <out.txt> <types.txt>
   cases:  de <key> <hex>            -> ok <hex of tser (tde bytes)> | err <Kind>
           pair <old> <new> <hex>    -> ok <hex1> <hex2> | err <Kind> | ok <hex1> err2 <Kind>
   types.txt is the wire-type table written by vlib/c16gen.py (one definition per line, prefix
   notation).  Named references are inlined; a recursive schema is unfolded LEVELS times with
   sharing (a value nested deeper than that exceeds MAX_VALUE_DEPTH anyway). *)
open Derive_model

let rec pos_of_int i = if i = 1 then XH else if i land 1 = 0 then XO (pos_of_int (i lsr 1)) else XI (pos_of_int (i lsr 1))
let n_of_int i = if i = 0 then N0 else Npos (pos_of_int i)
let rec int_of_pos = function XH -> 1 | XO p -> 2 * int_of_pos p | XI p -> 2 * int_of_pos p + 1
let int_of_n = function N0 -> 0 | Npos p -> int_of_pos p

(* decimal string (non-negative) -> N *)
let n_of_dec (s : string) : n =
  let digits = Array.init (String.length s) (fun i -> Char.code s.[i] - 48) in
  let len = Array.length digits in
  let is_zero () = Array.for_all (fun d -> d = 0) digits in
  let halve () =
    let carry = ref 0 in
    for i = 0 to len - 1 do
      let cur = !carry * 10 + digits.(i) in
      digits.(i) <- cur / 2; carry := cur mod 2
    done; !carry in
  let rec bits acc = if is_zero () then List.rev acc else let b = halve () in bits (b :: acc) in
  let bs = bits [] in
  let rec build = function
    | [] -> None
    | b :: rest -> (match build rest with
        | None -> if b = 1 then Some XH else None
        | Some p -> Some (if b = 1 then XI p else XO p)) in
  match build bs with None -> N0 | Some p -> Npos p

let byte_tab = Array.init 256 n_of_int
let hexval c = match c with '0'..'9' -> Char.code c - 48 | 'a'..'f' -> Char.code c - 87 | 'A'..'F' -> Char.code c - 55 | _ -> failwith "hex"
let bytes_of_hex (s : string) : n list =
  let len = String.length s / 2 in
  let rec go i acc = if i < 0 then acc else go (i - 1) (byte_tab.(16 * hexval s.[2*i] + hexval s.[2*i+1]) :: acc) in
  go (len - 1) []
let hex_of_bytes (l : n list) : string =
  let b = Buffer.create 64 in
  List.iter (fun x -> Buffer.add_string b (Printf.sprintf "%02x" (int_of_n x))) l;
  Buffer.contents b

(* ---------- type table ---------- *)
type rdef =
  | RStruct of bool * (n * bool * string list) list    (* field types kept as token lists *)
  | REnum of bool * (n * string list option) list
  | RNewtype of string list

let levels = 40
let defs : (string, rdef) Hashtbl.t = Hashtbl.create 64
let memo : (string * int, ty) Hashtbl.t = Hashtbl.create 256

let intk_of = function
  | "u8" -> U8 | "i8" -> I8 | "u16" -> U16 | "i16" -> I16 | "u32" -> U32 | "i32" -> I32
  | "u64" -> U64 | "i64" -> I64 | s -> failwith ("intk " ^ s)
let keyk_of = function "string" -> KStr | "uuid" -> KUuid | s -> KInt (intk_of s)

(* split one type off a token list *)
let rec take_ty (toks : string list) : string list * string list =
  match toks with
  | [] -> failwith "type expected"
  | ("opt" | "vec") as h :: rest -> let (a, r) = take_ty rest in (h :: a, r)
  | "arr" :: n :: rest -> let (a, r) = take_ty rest in ("arr" :: n :: a, r)
  | "map" :: k :: rest -> let (a, r) = take_ty rest in ("map" :: k :: a, r)
  | "set" :: k :: rest -> (["set"; k], rest)
  | "res" :: rest -> let (a, r) = take_ty rest in let (b, r2) = take_ty r in ("res" :: a @ b, r2)
  | "ref" :: k :: rest -> (["ref"; k], rest)
  | h :: rest -> ([h], rest)

let rec build (level : int) (toks : string list) : ty * string list =
  match toks with
  | [] -> failwith "type expected"
  | "unit" :: r -> (TLeaf LUnit, r)
  | "bool" :: r -> (TLeaf LBool, r)
  | ("u8" | "i8" | "u16" | "i16" | "u32" | "i32" | "u64" | "i64") as s :: r -> (TLeaf (LInt (intk_of s)), r)
  | "f32" :: r -> (TLeaf (LFixed F32), r)
  | "f64" :: r -> (TLeaf (LFixed F64), r)
  | "string" :: r -> (TLeaf LString, r)
  | "uuid" :: r -> (TLeaf (LFixed FUuid), r)
  | "object_id" :: r -> (TLeaf (LFixed FObjectId), r)
  | "service_id" :: r -> (TLeaf (LFixed FServiceId), r)
  | "sender" :: r -> (TLeaf (LFixed FSender), r)
  | "receiver" :: r -> (TLeaf (LFixed FReceiver), r)
  | "bytes" :: r -> (TLeaf LBytes, r)
  | "value" :: r -> (TValue, r)
  | "opt" :: r -> let (a, r') = build level r in (TOption a, r')
  | "vec" :: r -> let (a, r') = build level r in (TVec a, r')
  | "arr" :: n :: r -> let (a, r') = build level r in (TArray (n_of_dec n, a), r')
  | "map" :: k :: r -> let (a, r') = build level r in (TMap (keyk_of k, a), r')
  | "set" :: k :: r -> (TLeaf (LSet (keyk_of k)), r)
  | "res" :: r -> let (a, r1) = build level r in let (b, r2) = build level r1 in (TResult (a, b), r2)
  | "ref" :: k :: r -> (named k level, r)
  | s :: _ -> failwith ("type token " ^ s)

and named (key : string) (level : int) : ty =
  match Hashtbl.find_opt memo (key, level) with
  | Some t -> t
  | None ->
    let t =
      if level <= 0 then TLeaf LUnit (* unreachable below the nesting limit *)
      else match Hashtbl.find_opt defs key with
        | None -> failwith ("unknown type " ^ key)
        | Some (RNewtype toks) -> fst (build level toks)
        | Some (RStruct (fb, fs)) ->
            TStruct (List.map (fun (id, req, toks) -> (id, (req, fst (build (level - 1) toks)))) fs, fb)
        | Some (REnum (fb, vs)) ->
            TEnum (List.map (fun (id, o) -> (id, match o with None -> None | Some toks -> Some (fst (build (level - 1) toks)))) vs, fb)
    in
    Hashtbl.replace memo (key, level) t; t

let load_types (path : string) =
  let ic = open_in path in
  (try
    while true do
      let line = input_line ic in
      let toks = List.filter (fun s -> s <> "") (String.split_on_char ' ' line) in
      match toks with
      | "struct" :: key :: fb :: n :: rest ->
          let n = int_of_string n in
          let rec fields k toks acc =
            if k = 0 then List.rev acc else
            match toks with
            | id :: req :: r -> let (t, r') = take_ty r in fields (k - 1) r' ((n_of_dec id, req = "1", t) :: acc)
            | _ -> failwith "struct fields" in
          Hashtbl.replace defs key (RStruct (fb = "1", fields n rest []))
      | "enum" :: key :: fb :: n :: rest ->
          let n = int_of_string n in
          let rec vars k toks acc =
            if k = 0 then List.rev acc else
            match toks with
            | id :: "-" :: r -> vars (k - 1) r ((n_of_dec id, None) :: acc)
            | id :: r -> let (t, r') = take_ty r in vars (k - 1) r' ((n_of_dec id, Some t) :: acc)
            | _ -> failwith "enum variants" in
          Hashtbl.replace defs key (REnum (fb = "1", vars n rest []))
      | "newtype" :: key :: rest -> Hashtbl.replace defs key (RNewtype rest)
      | [] -> ()
      | _ -> failwith ("types line " ^ line)
    done
  with End_of_file -> ());
  close_in ic

let ty_of_key key = named key levels

let err_text = function
  | Eoi -> "Eoi" | Invalid -> "Invalid" | UnexpectedValue -> "UnexpectedValue"
  | TooDeep -> "TooDeep" | TrailingData -> "TrailingData"
  | MoreElementsRemain -> "MoreElementsRemain" | NoMoreElements -> "NoMoreElements"
  | Overflow -> "Overflow" | InvalidVersion -> "InvalidVersion" | Fuel -> "FUEL"

type step = SOk of n list | SDe of err | SSer of err

let step key (b : n list) : step =
  let t = ty_of_key key in
  match tde_top t b with
  | Err e -> SDe e
  | Ok x -> (match tser_top t x with Err e -> SSer e | Ok bs -> SOk bs)

(* the statements of C16_decides / C16_reencodes evaluated on one case: when the input is the
   canonical serialization (encoding 1 or 2) of a value v, then tde succeeds iff conforms t v, its
   result is typed e t 0 v, and the re-encoded bytes decode to norm t v.  Returns "" (holds),
   "na" (input is not such a serialization) or a description of the mismatch. *)
let spec_checked = ref 0
let spec_na = ref 0
let spec_check key (b : n list) : string =
  let t = ty_of_key key in
  match de_as_value true b with
  | Err _ -> incr spec_na; "na"
  | Ok v ->
    let enc = if serialize E2 v = Ok b then Some E2 else if serialize E1 v = Ok b then Some E1 else None in
    (match enc with
     | None -> incr spec_na; "na"
     | Some e ->
       incr spec_checked;
       let c = conforms t v in
       let ty = typed e t O v in
       (match tde_top t b with
        | Ok x ->
            if not c then "accepted-but-not-conforming"
            else if ty <> Some x then "typed-differs"
            else (match tser_top t x with
                  | Ok bs' -> if de_as_value true bs' = Ok (norm t v) then "" else "reencoded-differs-from-norm"
                  | Err _ -> "reencode-failed")
        | Err _ -> if c then "conforming-but-rejected" else if ty <> None then "typed-some-but-rejected" else ""))

let spec_out : out_channel option ref = ref None

let run_line (line : string) : string =
  match String.split_on_char ' ' line with
  | ["de"; key; h] ->
      if h = "" then "err Empty" else
      ((match !spec_out with
        | Some oc -> let r = spec_check key (bytes_of_hex h) in
                     if r <> "" && r <> "na" then (output_string oc (r ^ " " ^ line ^ "\n"))
        | None -> ());
      match step key (bytes_of_hex h) with
       | SOk bs -> "ok " ^ hex_of_bytes bs
       | SDe e -> "err " ^ err_text e
       | SSer e -> "serr " ^ err_text e)
  | ["pair"; o; nw; h] ->
      (match step o (bytes_of_hex h) with
       | SDe e -> "err " ^ err_text e
       | SSer e -> "serr " ^ err_text e
       | SOk b1 ->
           (match step nw b1 with
            | SOk b2 -> "ok " ^ hex_of_bytes b1 ^ " " ^ hex_of_bytes b2
            | SDe e -> "ok " ^ hex_of_bytes b1 ^ " err2 " ^ err_text e
            | SSer e -> "ok " ^ hex_of_bytes b1 ^ " err2 serr " ^ err_text e))
  | _ -> "!BADLINE"

let () =
  load_types Sys.argv.(3);
  (if Array.length Sys.argv > 4 then spec_out := Some (open_out Sys.argv.(4)));
  let ic = open_in Sys.argv.(1) in
  let oc = open_out Sys.argv.(2) in
  (try
    while true do
      let line = input_line ic in
      let out = try run_line line with Failure m -> "!DRIVER " ^ m | Stack_overflow -> "!DRIVER stack" in
      output_string oc out; output_char oc '\n'
    done
  with End_of_file -> ());
  (match !spec_out with
   | Some sc -> output_string sc (Printf.sprintf "checked %d na %d\n" !spec_checked !spec_na); close_out sc
   | None -> ());
  close_in ic; close_out oc
