(* derive_driver.ml — runs the extracted derive-contract model (derive_model.ml) on a cases file.
     derive_driver <cases.txt> <out.txt> <types.txt>
   cases:  de <key> <hex>            -> ok <hex of tser (tde bytes)> | err <Kind>
           pair <old> <new> <hex>    -> ok <hex1> <hex2> | err <Kind> | ok <hex1> err2 <Kind>
   With a 4th argument (spec file) the statements of C16_decides/accepts (de cases) and of
   C16_old_new (pair cases; KEEPS labels read from expect.txt next to the cases file) are evaluated
   on every case and mismatches are written there.
   types.txt is the wire-type table written by vlib/c16gen.py (one definition per line, prefix
   notation).  Named references are inlined; a recursive schema is unfolded LEVELS times with
   sharing (a value nested deeper than that exceeds MAX_VALUE_DEPTH anyway). *)
open Derive_model

let rec pos_of_int i = if i = 1 then XH else if i land 1 = 0 then XO (pos_of_int (i lsr 1)) else XI (pos_of_int (i lsr 1))
let n_of_int i = if i = 0 then N0 else Npos (pos_of_int i)
let rec int_of_pos = function XH -> 1 | XO p -> 2 * int_of_pos p | XI p -> 2 * int_of_pos p + 1
let int_of_n = function N0 -> 0 | Npos p -> int_of_pos p

(* decimal string (non-negative) -> N *)
let n_of_dec (s : string) : n =
  let digits = Array.init (String.length s) (fun i -> Char.code s.[i] - 48) in
  let len = Array.length digits in
  let is_zero () = Array.for_all (fun d -> d = 0) digits in
  let halve () =
    let carry = ref 0 in
    for i = 0 to len - 1 do
      let cur = !carry * 10 + digits.(i) in
      digits.(i) <- cur / 2; carry := cur mod 2
    done; !carry in
  let rec bits acc = if is_zero () then List.rev acc else let b = halve () in bits (b :: acc) in
  let bs = bits [] in
  let rec build = function
    | [] -> None
    | b :: rest -> (match build rest with
        | None -> if b = 1 then Some XH else None
        | Some p -> Some (if b = 1 then XI p else XO p)) in
  match build bs with None -> N0 | Some p -> Npos p

let byte_tab = Array.init 256 n_of_int
let hexval c = match c with '0'..'9' -> Char.code c - 48 | 'a'..'f' -> Char.code c - 87 | 'A'..'F' -> Char.code c - 55 | _ -> failwith "hex"
let bytes_of_hex (s : string) : n list =
  let len = String.length s / 2 in
  let rec go i acc = if i < 0 then acc else go (i - 1) (byte_tab.(16 * hexval s.[2*i] + hexval s.[2*i+1]) :: acc) in
  go (len - 1) []
let hex_of_bytes (l : n list) : string =
  let b = Buffer.create 64 in
  List.iter (fun x -> Buffer.add_string b (Printf.sprintf "%02x" (int_of_n x))) l;
  Buffer.contents b

(* ---------- type table ---------- *)
type rdef =
  | RStruct of bool * (n * bool * string list) list    (* field types kept as token lists *)
  | REnum of bool * (n * string list option) list
  | RNewtype of string list

let levels = 40
let defs : (string, rdef) Hashtbl.t = Hashtbl.create 64
let memo : (string * int, ty) Hashtbl.t = Hashtbl.create 256

let intk_of = function
  | "u8" -> U8 | "i8" -> I8 | "u16" -> U16 | "i16" -> I16 | "u32" -> U32 | "i32" -> I32
  | "u64" -> U64 | "i64" -> I64 | s -> failwith ("intk " ^ s)
let keyk_of = function "string" -> KStr | "uuid" -> KUuid | s -> KInt (intk_of s)

(* split one type off a token list *)
let rec take_ty (toks : string list) : string list * string list =
  match toks with
  | [] -> failwith "type expected"
  | ("opt" | "vec") as h :: rest -> let (a, r) = take_ty rest in (h :: a, r)
  | "arr" :: n :: rest -> let (a, r) = take_ty rest in ("arr" :: n :: a, r)
  | "map" :: k :: rest -> let (a, r) = take_ty rest in ("map" :: k :: a, r)
  | "set" :: k :: rest -> (["set"; k], rest)
  | "res" :: rest -> let (a, r) = take_ty rest in let (b, r2) = take_ty r in ("res" :: a @ b, r2)
  | "ref" :: k :: rest -> (["ref"; k], rest)
  | h :: rest -> ([h], rest)

let rec build (level : int) (toks : string list) : ty * string list =
  match toks with
  | [] -> failwith "type expected"
  | "unit" :: r -> (TLeaf LUnit, r)
  | "bool" :: r -> (TLeaf LBool, r)
  | ("u8" | "i8" | "u16" | "i16" | "u32" | "i32" | "u64" | "i64") as s :: r -> (TLeaf (LInt (intk_of s)), r)
  | "f32" :: r -> (TLeaf (LFixed F32), r)
  | "f64" :: r -> (TLeaf (LFixed F64), r)
  | "string" :: r -> (TLeaf LString, r)
  | "uuid" :: r -> (TLeaf (LFixed FUuid), r)
  | "object_id" :: r -> (TLeaf (LFixed FObjectId), r)
  | "service_id" :: r -> (TLeaf (LFixed FServiceId), r)
  | "sender" :: r -> (TLeaf (LFixed FSender), r)
  | "receiver" :: r -> (TLeaf (LFixed FReceiver), r)
  | "bytes" :: r -> (TLeaf LBytes, r)
  | "value" :: r -> (TValue, r)
  | "opt" :: r -> let (a, r') = build level r in (TOption a, r')
  | "vec" :: r -> let (a, r') = build level r in (TVec a, r')
  | "arr" :: n :: r -> let (a, r') = build level r in (TArray (n_of_dec n, a), r')
  | "map" :: k :: r -> let (a, r') = build level r in (TMap (keyk_of k, a), r')
  | "set" :: k :: r -> (TLeaf (LSet (keyk_of k)), r)
  | "res" :: r -> let (a, r1) = build level r in let (b, r2) = build level r1 in (TResult (a, b), r2)
  | "ref" :: k :: r -> (named k level, r)
  | s :: _ -> failwith ("type token " ^ s)

and named (key : string) (level : int) : ty =
  match Hashtbl.find_opt memo (key, level) with
  | Some t -> t
  | None ->
    let t =
      if level <= 0 then TLeaf LUnit (* unreachable below the nesting limit *)
      else match Hashtbl.find_opt defs key with
        | None -> failwith ("unknown type " ^ key)
        | Some (RNewtype toks) -> fst (build level toks)
        | Some (RStruct (fb, fs)) ->
            TStruct (List.map (fun (id, req, toks) -> (id, (req, fst (build (level - 1) toks)))) fs, fb)
        | Some (REnum (fb, vs)) ->
            TEnum (List.map (fun (id, o) -> (id, match o with None -> None | Some toks -> Some (fst (build (level - 1) toks)))) vs, fb)
    in
    Hashtbl.replace memo (key, level) t; t

let load_types (path : string) =
  let ic = open_in path in
  (try
    while true do
      let line = input_line ic in
      let toks = List.filter (fun s -> s <> "") (String.split_on_char ' ' line) in
      match toks with
      | "struct" :: key :: fb :: n :: rest ->
          let n = int_of_string n in
          let rec fields k toks acc =
            if k = 0 then List.rev acc else
            match toks with
            | id :: req :: r -> let (t, r') = take_ty r in fields (k - 1) r' ((n_of_dec id, req = "1", t) :: acc)
            | _ -> failwith "struct fields" in
          Hashtbl.replace defs key (RStruct (fb = "1", fields n rest []))
      | "enum" :: key :: fb :: n :: rest ->
          let n = int_of_string n in
          let rec vars k toks acc =
            if k = 0 then List.rev acc else
            match toks with
            | id :: "-" :: r -> vars (k - 1) r ((n_of_dec id, None) :: acc)
            | id :: r -> let (t, r') = take_ty r in vars (k - 1) r' ((n_of_dec id, Some t) :: acc)
            | _ -> failwith "enum variants" in
          Hashtbl.replace defs key (REnum (fb = "1", vars n rest []))
      | "newtype" :: key :: rest -> Hashtbl.replace defs key (RNewtype rest)
      | [] -> ()
      | _ -> failwith ("types line " ^ line)
    done
  with End_of_file -> ());
  close_in ic

let ty_of_key key = named key levels

let err_text = function
  | Eoi -> "Eoi" | Invalid -> "Invalid" | UnexpectedValue -> "UnexpectedValue"
  | TooDeep -> "TooDeep" | TrailingData -> "TrailingData"
  | MoreElementsRemain -> "MoreElementsRemain" | NoMoreElements -> "NoMoreElements"
  | Overflow -> "Overflow" | InvalidVersion -> "InvalidVersion" | Fuel -> "FUEL"

type step = SOk of n list | SDe of err | SSer of err

let step key (b : n list) : step =
  let t = ty_of_key key in
  match tde_top t b with
  | Err e -> SDe e
  | Ok x -> (match tser_top t x with Err e -> SSer e | Ok bs -> SOk bs)

(* the statements of C16_decides / C16_reencodes evaluated on one case: when the input is the
   canonical serialization (encoding 1 or 2) of a value v, then tde succeeds iff conforms t v, its
   result is typed e t 0 v, and the re-encoded bytes decode to norm t v.  Returns "" (holds),
   "na" (input is not such a serialization) or a description of the mismatch. *)
let spec_checked = ref 0
let spec_na = ref 0
let spec_check key (b : n list) : string =
  let t = ty_of_key key in
  match de_as_value true b with
  | Err _ -> incr spec_na; "na"
  | Ok v ->
    let enc = if serialize E2 v = Ok b then Some E2 else if serialize E1 v = Ok b then Some E1 else None in
    (match enc with
     | None -> incr spec_na; "na"
     | Some e ->
       incr spec_checked;
       let c = conforms t v in
       let ty = typed e t O v in
       (match tde_top t b with
        | Ok x ->
            if not c then "accepted-but-not-conforming"
            else if ty <> Some x then "typed-differs"
            else (match tser_top t x with
                  | Ok bs' -> if de_as_value true bs' = Ok (norm t v) then "" else "reencoded-differs-from-norm"
                  | Err _ -> "reencode-failed")
        | Err _ -> if c then "conforming-but-rejected" else if ty <> None then "typed-some-but-rejected" else ""))

(* ---------- the statement of C16_old_new evaluated on the pair cases ----------
   Hypotheses: [evolves t_old t_new] must hold on every generated pair; a case the harness labels
   KEEPS must satisfy [all_fallback t_old] (hence [evolves_keeping], C16_old_new_all_fallback).
   Conclusion (when the input is the canonical serialization of a value conforming to t_new and the
   pair is keeping): the old type accepts, the new type reads from the re-encoded bytes exactly what
   it reads from the input, and its re-encoding decodes to [norm t_new v].
   The relation walks the whole type, so for recursive schemas it is evaluated on an unfolding small
   enough to traverse (counted as truncated; sound for the two checks above, the converse check
   "all_fallback => labelled KEEPS" is only made on full unfoldings). *)
let cap = 1_000_000_000
let sat a b = if a + b > cap then cap else a + b
let size_memo : (string * int, int) Hashtbl.t = Hashtbl.create 256
let rec refs = function [] -> [] | "ref" :: k :: r -> k :: refs r | _ :: r -> refs r
let rec size_named key level =
  if level <= 0 then 1 else
  match Hashtbl.find_opt size_memo (key, level) with
  | Some s -> s
  | None ->
    let sum l lev = List.fold_left (fun a k -> sat a (size_named k lev)) 1 l in
    let s = match Hashtbl.find_opt defs key with
      | None -> 1
      | Some (RNewtype toks) -> sum (refs toks) level
      | Some (RStruct (_, fs)) -> List.fold_left (fun a (_, _, toks) -> sat a (sum (refs toks) (level - 1))) 1 fs
      | Some (REnum (_, vs)) ->
          List.fold_left (fun a (_, o) -> sat a (match o with None -> 1 | Some toks -> sum (refs toks) (level - 1))) 1 vs in
    Hashtbl.replace size_memo (key, level) s; s

let pair_memo : (string * string, int * bool * bool * bool * bool) Hashtbl.t = Hashtbl.create 16
let pair_hyp o nw =
  match Hashtbl.find_opt pair_memo (o, nw) with
  | Some r -> r
  | None ->
    let rec pick l = if l <= 1 || sat (size_named o l) (size_named nw l) <= 200_000 then l else pick (l - 1) in
    let l = pick levels in
    let t1 = named o l and t2 = named nw l in
    let r = (l, evolves t1 t2, all_fallback t1, evolves_keeping t1 t2, wf_ty t1 && wf_ty t2) in
    Hashtbl.replace pair_memo (o, nw) r; r

let pair_checked = ref 0
let pair_keeping = ref 0
let pair_label = ref 0
let pair_trunc = ref 0
let ends_with s suf =
  let n = String.length s and m = String.length suf in n >= m && String.sub s (n - m) m = suf
let pair_check o nw (b : n list) (expect : string) : string =
  let (l, ev, af, ek, wf) = pair_hyp o nw in
  let keeps = ends_with expect " KEEPS" in
  if keeps then incr pair_label;
  if l < levels then incr pair_trunc;
  if not ev then "pair-not-evolves"
  else if not wf then "pair-type-not-wf"
  else if keeps && not af then "KEEPS-but-not-all_fallback"
  else if af && not ek then "all_fallback-but-not-evolves_keeping"
  else
    let t1 = ty_of_key o and t2 = ty_of_key nw in
    match de_as_value true b with
    | Err _ -> "na"
    | Ok v ->
      let canonical = serialize E2 v = Ok b || serialize E1 v = Ok b in
      if not canonical || not (conforms t2 v) then "na"
      else begin
        incr pair_checked;
        let claim = keeps || (ek && l = levels) in
        if not claim then ""
        else begin
          incr pair_keeping;
          if af && l = levels && expect <> "" && not keeps then "all_fallback-and-conforming-but-not-labelled-KEEPS"
          else
          match tde_top t1 b with
          | Err _ -> "old-rejects"
          | Ok x1 ->
            (match tser_top t1 x1 with
             | Err _ -> "old-reencode-failed"
             | Ok b1 ->
               let direct = tde_top t2 b in
               (match tde_top t2 b1 with
                | Err _ -> "new-rejects-after-old"
                | Ok x2 ->
                  if direct <> Ok x2 then "new-reads-differently-after-old"
                  else (match tser_top t2 x2 with
                        | Err _ -> "new-reencode-failed"
                        | Ok b2 -> if de_as_value true b2 = Ok (norm t2 v) then "" else "back-differs-from-norm")))
        end
      end

let spec_out : out_channel option ref = ref None
let cur_expect = ref ""

let run_line (line : string) : string =
  match String.split_on_char ' ' line with
  | ["de"; key; h] ->
      if h = "" then "err Empty" else
      ((match !spec_out with
        | Some oc -> let r = spec_check key (bytes_of_hex h) in
                     if r <> "" && r <> "na" then (output_string oc (r ^ " " ^ line ^ "\n"))
        | None -> ());
      match step key (bytes_of_hex h) with
       | SOk bs -> "ok " ^ hex_of_bytes bs
       | SDe e -> "err " ^ err_text e
       | SSer e -> "serr " ^ err_text e)
  | ["pair"; o; nw; h] ->
      (match !spec_out with
       | Some oc -> let r = pair_check o nw (bytes_of_hex h) !cur_expect in
                    if r <> "" && r <> "na" then (output_string oc (r ^ " " ^ line ^ "\n"))
       | None -> ());
      (match step o (bytes_of_hex h) with
       | SDe e -> "err " ^ err_text e
       | SSer e -> "serr " ^ err_text e
       | SOk b1 ->
           (match step nw b1 with
            | SOk b2 -> "ok " ^ hex_of_bytes b1 ^ " " ^ hex_of_bytes b2
            | SDe e -> "ok " ^ hex_of_bytes b1 ^ " err2 " ^ err_text e
            | SSer e -> "ok " ^ hex_of_bytes b1 ^ " err2 serr " ^ err_text e))
  | _ -> "!BADLINE"

let () =
  load_types Sys.argv.(3);
  (if Array.length Sys.argv > 4 then spec_out := Some (open_out Sys.argv.(4)));
  let ic = open_in Sys.argv.(1) in
  let oc = open_out Sys.argv.(2) in
  (* the harness' expectations (KEEPS labels), line by line next to the cases, when present *)
  let ec = try Some (open_in (Filename.concat (Filename.dirname Sys.argv.(1)) "expect.txt")) with Sys_error _ -> None in
  (try
    while true do
      let line = input_line ic in
      cur_expect := (match ec with Some c -> (try input_line c with End_of_file -> "") | None -> "");
      let out = try run_line line with Failure m -> "!DRIVER " ^ m | Stack_overflow -> "!DRIVER stack" in
      output_string oc out; output_char oc '\n'
    done
  with End_of_file -> ());
  (match !spec_out with
   | Some sc -> output_string sc (Printf.sprintf "checked %d na %d pairs %d keeping %d keeps_label %d truncated %d\n"
                                    !spec_checked !spec_na !pair_checked !pair_keeping !pair_label !pair_trunc); close_out sc
   | None -> ());
  close_in ic; close_out oc
