(* clientlife_driver.ml — runs the extracted client life-cycle automaton (clientlife_model.ml,
   from coq/Proto/ClientLife.v) on the traces `harness fault` recorded from the real client.

   Input: blocks
     begin <id> <minor version>
     enq <label> <RequestKind>        the application is about to send this request through a Handle
     drop <label>                     the application drops the PendingReply of that call, unanswered
     recv <message>                   the transport wrapper returned Ok(message) from receive_poll
     send <message>                   the wrapper accepted the message in send_start
     flush ok                         send_poll_flush returned Ready(Ok)
     recverr <c> | flusherr <c>       the first transport error (receive / anything under a flush)
     obs <label> value|shutdown       what the application observed for that waiter
     obs <label> dropped              (it dropped the reply future itself; the model must not have `Sent`)
     result ok|transport<c>|other|none|connect_failed|panic
     end
   Output: one line per block, `result=<r> waiters=<label>:<class>,...` in the format of the
   harness's impl.txt, followed by ` mismatch=<what>` when the automaton cannot reproduce the
   sequence of messages the client sent.

   What is NOT observable from outside and is therefore reconstructed here (lazily, from its
   observable consequences): the moment a queued request is selected (`ISelHandle` is fed when a
   sent message or an observed reply needs it), requests sent by Drop impls and by library code
   (synthesised from the message they produce), and handle clone/drop counts (a Shutdown sent
   without a request is explained by dropping the remaining handles).

   `Selected::AbortFunctionCall(serial)` (the client notices that the reply future of a call was
   dropped) becomes `ISelAbort serial`:
     - in the main loop from protocol 1.16 on it is observable: `send AbortFunctionCall serial`
       is explained by `ISelAbort serial` in phase Running (fed in any other phase the automaton
       sends nothing and the message stays unexplained); the call must be one the application
       did not await to its end (`abort_of_awaited_call` otherwise);
     - below 1.16 and while draining nothing is sent and the waiter ends `Dropped` either way:
       after a `drop <label>` line the input is fed as soon as the automaton holds that call in
       `function_calls` and is Draining (or Running below 1.16).  A wrong `AbortFunctionCall`
       of the automaton there shows as `not_sent` / a missing flush (result `none`). *)
open Clientlife_model

let rec pos_of_int i = if i = 1 then XH else if i land 1 = 0 then XO (pos_of_int (i lsr 1)) else XI (pos_of_int (i lsr 1))
let n_of_int i = if i = 0 then N0 else Npos (pos_of_int i)
let rec int_of_pos = function XH -> 1 | XO p -> 2 * int_of_pos p | XI p -> 2 * int_of_pos p + 1
let int_of_n = function N0 -> 0 | Npos p -> int_of_pos p
let rec nat_of_int i = if i <= 0 then O else S (nat_of_int (i - 1))

let words s = List.filter (fun x -> x <> "") (String.split_on_char ' ' s)
let nth l i = match List.nth_opt l i with Some x -> x | None -> "-"
let num s = try int_of_string s with _ -> 0
let nn s = n_of_int (num s)

(* ---------- messages the client receives ---------- *)
let next_proxy = ref 0
let msg_of_words (w : string list) : msg =
  let a i = nth w i in
  match a 0 with
  | "Shutdown" -> MsgShutdown
  | "CreateObjectReply" -> MsgCreateObjectReply (nn (a 1), a 2 = "Ok")
  | "DestroyObjectReply" -> MsgDestroyObjectReply (nn (a 1))
  | "CreateServiceReply" ->
      (match a 2 with
       | "Ok" -> MsgCreateServiceReply (nn (a 1), n_of_int 0, nn (a 3))
       | "Foreign" -> MsgCreateServiceReply (nn (a 1), n_of_int 2, N0)
       | _ -> MsgCreateServiceReply (nn (a 1), n_of_int 1, N0))
  | "DestroyServiceReply" ->
      MsgDestroyServiceReply (nn (a 1), n_of_int (match a 2 with "Ok" -> 0 | "Foreign" -> 2 | _ -> 1))
  | "CallFunction" | "CallFunction2" -> MsgCallFunction (nn (a 1), nn (a 2), true)
  | "CallFunctionReply" -> MsgCallFunctionReply (nn (a 1))
  | "SubscribeEvent" -> MsgSubscribeEvent
  | "UnsubscribeEvent" -> MsgUnsubscribeEvent
  | "CreateChannelReply" -> MsgCreateChannelReply (nn (a 1), nn (a 2))
  | "CloseChannelEndReply" -> MsgCloseChannelEndReply (nn (a 1))
  | "ChannelEndClosed" -> MsgChannelEndClosed (nn (a 1), a 2 = "S")
  | "ClaimChannelEndReply" ->
      MsgClaimChannelEndReply (nn (a 1), n_of_int (match a 2 with "SenderClaimed" -> 0 | "ReceiverClaimed" -> 1 | _ -> 2))
  | "ChannelEndClaimed" -> MsgChannelEndClaimed (nn (a 1), a 2 = "S")
  | "ItemReceived" -> MsgItemReceived (nn (a 1))
  | "AddChannelCapacity" -> MsgAddChannelCapacity (nn (a 1))
  | "SyncReply" -> MsgSyncReply (nn (a 1))
  | "CreateBusListenerReply" -> MsgCreateBusListenerReply (nn (a 1), nn (a 2))
  | "DestroyBusListenerReply" -> MsgDestroyBusListenerReply (nn (a 1), a 2 = "Ok")
  | "StartBusListenerReply" -> MsgStartBusListenerReply (nn (a 1), a 2 = "Ok", true)
  | "StopBusListenerReply" -> MsgStopBusListenerReply (nn (a 1), a 2 = "Ok", true)
  | "EmitBusEvent" -> MsgEmitBusEvent ((if a 1 = "-" then None else Some (nn (a 1))), true)
  | "BusListenerCurrentFinished" -> MsgBusListenerCurrentFinished (nn (a 1), true)
  | "AbortFunctionCall" -> MsgAbortFunctionCall (nn (a 1))
  | "QueryIntrospection" -> MsgQueryIntrospection true
  | "QueryIntrospectionReply" -> MsgQueryIntrospectionReply (nn (a 1))
  | "QueryServiceInfoReply" ->
      incr next_proxy;
      MsgQueryServiceInfoReply (nn (a 1), a 2 = "I", a 2 <> "BAD", n_of_int !next_proxy)
  | "QueryServiceVersionReply" ->
      incr next_proxy;
      MsgQueryServiceVersionReply (nn (a 1), a 2 = "Ok", n_of_int !next_proxy)
  | "SubscribeEventReply" -> MsgSubscribeEventReply (nn (a 1))
  | "EmitEvent" -> MsgEmitEvent
  | "ServiceDestroyed" -> MsgServiceDestroyed (nn (a 1))
  | "SubscribeServiceReply" -> MsgSubscribeServiceReply (nn (a 1), a 2 <> "Ok")
  | "SubscribeAllEvents" -> MsgSubscribeAllEvents (a 1 = "-")
  | "UnsubscribeAllEvents" -> MsgUnsubscribeAllEvents (a 1 = "-")
  | "SubscribeAllEventsReply" ->
      MsgSubscribeAllEventsReply (nn (a 1), n_of_int (match a 2 with "Ok" -> 0 | "Invalid" -> 1 | _ -> 2))
  | "UnsubscribeAllEventsReply" ->
      MsgUnsubscribeAllEventsReply (nn (a 1), n_of_int (match a 2 with "Ok" -> 0 | "Invalid" -> 1 | _ -> 2))
  | _ -> MsgClientToBroker

(* ---------- messages the client sends ---------- *)
let okind_name = function
  | OShutdown -> "Shutdown" | OCreateObject -> "CreateObject" | ODestroyObject -> "DestroyObject"
  | OCreateService -> "CreateService" | OCreateService2 -> "CreateService2" | ODestroyService -> "DestroyService"
  | OCallFunction -> "CallFunction" | OCallFunction2 -> "CallFunction2" | OCallFunctionReply -> "CallFunctionReply"
  | OEmitEvent -> "EmitEvent" | OCreateChannel -> "CreateChannel" | OCloseChannelEnd -> "CloseChannelEnd"
  | OClaimChannelEnd -> "ClaimChannelEnd" | OSendItem -> "SendItem" | OAddChannelCapacity -> "AddChannelCapacity"
  | OSync -> "Sync" | OCreateBusListener -> "CreateBusListener" | ODestroyBusListener -> "DestroyBusListener"
  | OAddBusListenerFilter -> "AddBusListenerFilter" | ORemoveBusListenerFilter -> "RemoveBusListenerFilter"
  | OClearBusListenerFilters -> "ClearBusListenerFilters" | OStartBusListener -> "StartBusListener"
  | OStopBusListener -> "StopBusListener" | OQueryServiceInfo -> "QueryServiceInfo"
  | OQueryServiceVersion -> "QueryServiceVersion" | OSubscribeEvent -> "SubscribeEvent"
  | OUnsubscribeEvent -> "UnsubscribeEvent" | OSubscribeAllEvents -> "SubscribeAllEvents"
  | OUnsubscribeAllEvents -> "UnsubscribeAllEvents" | OSubscribeService -> "SubscribeService"
  | OUnsubscribeService -> "UnsubscribeService" | ORegisterIntrospection -> "RegisterIntrospection"
  | OQueryIntrospection -> "QueryIntrospection" | OQueryIntrospectionReply -> "QueryIntrospectionReply"
  | OAbortFunctionCall -> "AbortFunctionCall"

let mapk_name = function
  | MServices -> "services" | MProxies -> "proxies" | MBusListeners -> "bus_listeners"
  | MSenders -> "senders" | MReceivers -> "receivers" | MAbortCallHandles -> "abort"
  | _ -> "other"

(* ---------- one block ---------- *)
type ev = Enq of string * string | DropReply of string | Recv of string list | Send of string list | FlushOk | RecvErr of int | FlushErr of int

let run_block (ver : int) (events : ev list) (obs : (string * string) list) (result : string) : string =
  next_proxy := 0;
  let st = ref (init (n_of_int ver)) in
  let pendq : (string * string) list ref = ref [] in
  let consumed = ref 0 in
  let labels : (int, string) Hashtbl.t = Hashtbl.create 16 in
  let ords : (string, int) Hashtbl.t = Hashtbl.create 8 in
  let mismatch : string option ref = ref None in
  let last_proxy = ref 0 in
  let set_mismatch s = if !mismatch = None then mismatch := Some s in
  let obs_class l = try Some (List.assoc l obs) with Not_found -> None in
  let feed (inp : input) : unit =
    let before = int_of_n !st.nextw in
    st := step !st inp;
    let after = int_of_n !st.nextw in
    (match inp with
     | IEnqueue _ -> ()
     | _ ->
       if after > before then begin
         (* a sender the client created itself: label it by the map that holds it *)
         let w = before in
         List.iter (fun e ->
           match e.ew with
           | Some x when int_of_n x = w ->
               let name = mapk_name e.ek in
               let k = try Hashtbl.find ords name with Not_found -> 0 in
               Hashtbl.replace ords name (k + 1);
               Hashtbl.replace labels w (Printf.sprintf "%s#%d" name k);
               if e.ek = MProxies then last_proxy := int_of_n e.ekey
           | _ -> ()) !st.maps
       end)
  in
  let is_running () = match !st.phase with Running -> true | _ -> false in
  (* calls whose reply future the application dropped and for which no ISelAbort was fed yet *)
  let dropped : string list ref = ref [] in
  let waiter_of_label (l : string) : int option =
    Hashtbl.fold (fun w l' acc -> if l' = l then Some w else acc) labels None in
  let label_of_call (serial : n) : string option =
    match List.find_opt (fun e -> e.ek = MFunctionCalls && e.ekey = serial) !st.maps with
    | Some { ew = Some w; _ } -> Hashtbl.find_opt labels (int_of_n w)
    | _ -> None in
  let pending_call_of_label (l : string) : n option =
    match waiter_of_label l with
    | None -> None
    | Some w ->
      (match List.find_opt (fun e -> e.ek = MFunctionCalls &&
                                     (match e.ew with Some x -> int_of_n x = w | None -> false)) !st.maps with
       | Some e -> Some e.ekey
       | None -> None) in
  (* the unobservable aborts: while draining, and in the main loop below protocol 1.16 *)
  let silent_aborts () =
    let silent = match !st.phase with
      | Draining _ -> true
      | Running -> ver < 16
      | _ -> false in
    if silent && !dropped <> [] then
      dropped := List.filter (fun l ->
        match pending_call_of_label l with
        | Some serial -> feed (ISelAbort serial); false
        | None -> true) !dropped
  in
  let drain_internal () =
    let guard = ref 0 in
    while is_running () && !st.queue <> [] && !guard < 1000 do incr guard; feed ISelHandle done in
  let feed_request (label : string option) (q : req) : unit =
    drain_internal ();
    let w = int_of_n !st.nextw in
    feed (IEnqueue q);
    (match label with Some l when has_reply q && l <> "-" -> Hashtbl.replace labels w l | _ -> ());
    feed ISelHandle
  in
  let enqueue_only (label : string) (q : req) : unit =
    let w = int_of_n !st.nextw in
    feed (IEnqueue q);
    if has_reply q && label <> "-" then Hashtbl.replace labels w label
  in
  let proxy_of_service (svc : n) : n =
    match List.find_opt (fun e -> e.ek = MProxies && e.eaux = svc) !st.maps with
    | Some e -> e.ekey
    | None -> n_of_int !last_proxy
  in
  let has_end (m : mapk) (c : n) = lookup m c !st.maps <> None in
  (* the request an `enq` line stands for, with the unobservable parameters chosen so that it
     produces the message x if it can *)
  let req_for_logged (kind : string) (x : string list) : req =
    let a i = nth x i in
    match kind with
    | "CreateObject" -> QCreateObject
    | "CreateService" -> QCreateService true
    | "CreateProxy" -> QCreateProxy (if a 0 = "QueryServiceInfo" || a 0 = "QueryServiceVersion" then nn (a 2) else N0)
    | "SubscribeEvent" ->
        if a 0 = "SubscribeEvent" then QSubscribeEvent (proxy_of_service (nn (a 2)), true)
        else QSubscribeEvent (n_of_int !last_proxy, false)
    | "CallFunction" -> QCallFunction true
    | "CreateBusListener" -> QCreateBusListener
    | "StartBusListener" -> QStartBusListener (if a 0 = "StartBusListener" then nn (a 2) else N0)
    | "StopBusListener" -> QStopBusListener (if a 0 = "StopBusListener" then nn (a 2) else N0)
    | "CreateClaimedReceiver" -> QCreateClaimedReceiver
    | "CreateClaimedSender" -> QCreateClaimedSender
    | "SyncClient" -> QSyncClient
    | "SyncBroker" -> QSyncBroker
    | "GetProtocolVersion" -> QGetProtocolVersion
    | "Shutdown" -> QShutdown
    | "AddBusListenerFilter" -> QAddBusListenerFilter (if a 0 = "AddBusListenerFilter" then nn (a 1) else N0)
    | _ -> QRegisterIntrospection
  in
  (* a request nobody logged (Drop impls, library code), recognised by the message it sends;
     `rest` = the following sends of the same flush, for the requests that send several *)
  let req_of_msg (x : string list) (rest : string list list) : req option =
    let a i = nth x i in
    let count_unsub () =
      let rec go l n all = match l with
        | ("UnsubscribeEvent" :: _) :: t -> go t (n + 1) all
        | ("UnsubscribeAllEvents" :: "-" :: _) :: _ -> (n, true)
        | _ -> (n, all) in
      go in
    match a 0 with
    | "CreateObject" -> Some QCreateObject
    | "DestroyObject" -> Some QDestroyObject
    | "CreateService" | "CreateService2" -> Some (QCreateService true)
    | "DestroyService" -> Some (QDestroyService (nn (a 2)))
    | "CallFunction" | "CallFunction2" -> Some (QCallFunction true)
    | "CallFunctionReply" -> Some (QCallFunctionReply (nn (a 1), true))
    | "EmitEvent" -> Some (QEmitEvent (true, true))
    | "CreateChannel" -> Some (if a 2 = "S" then QCreateClaimedSender else QCreateClaimedReceiver)
    | "CloseChannelEnd" ->
        let s = a 3 = "S" in
        Some (QCloseChannelEnd (nn (a 2), s, has_end (if s then MSenders else MReceivers) (nn (a 2))))
    | "ClaimChannelEnd" -> Some (if a 3 = "S" then QClaimSender (nn (a 2)) else QClaimReceiver (nn (a 2)))
    | "SendItem" -> Some (QSendItem true)
    | "AddChannelCapacity" -> Some QAddChannelCapacity
    | "Sync" -> Some QSyncBroker
    | "CreateBusListener" -> Some QCreateBusListener
    | "DestroyBusListener" -> Some (QDestroyBusListener (nn (a 2)))
    | "AddBusListenerFilter" -> Some (QAddBusListenerFilter (nn (a 1)))
    | "RemoveBusListenerFilter" -> Some (QRemoveBusListenerFilter (nn (a 1)))
    | "ClearBusListenerFilters" -> Some (QClearBusListenerFilters (nn (a 1)))
    | "StartBusListener" -> Some (QStartBusListener (nn (a 2)))
    | "StopBusListener" -> Some (QStopBusListener (nn (a 2)))
    | "QueryServiceInfo" | "QueryServiceVersion" -> Some (QCreateProxy (nn (a 2)))
    | "SubscribeEvent" -> Some (QSubscribeEvent (proxy_of_service (nn (a 2)), true))
    | "UnsubscribeService" ->
        let (n, all) = count_unsub () rest 0 false in
        Some (QDestroyProxy (proxy_of_service (nn (a 1)), nat_of_int n, all))
    | "UnsubscribeEvent" ->
        let (n, all) = count_unsub () rest 1 false in
        Some (QDestroyProxy (proxy_of_service (nn (a 1)), nat_of_int n, all))
    | "UnsubscribeAllEvents" ->
        if a 1 = "-" then Some (QDestroyProxy (proxy_of_service (nn (a 2)), O, true))
        else Some (QUnsubscribeAllEvents (proxy_of_service (nn (a 2)), O, true))
    | "SubscribeAllEvents" -> Some (QSubscribeAllEvents (proxy_of_service (nn (a 2)), true))
    | "RegisterIntrospection" -> Some (QSubmitIntrospection (true, true))
    | "QueryIntrospection" -> Some (QQueryIntrospection false)
    | _ -> None
  in
  (* can the logged request at the head of the pending list be the origin of message x?  A request
     that sends nothing (or need not send) is fed in any case; one that sends something else was
     issued AFTER the unlogged request that produced x *)
  let can_produce (kind : string) (x : string) : bool =
    match kind with
    | "CreateObject" -> x = "CreateObject"
    | "CreateService" -> x = "CreateService" || x = "CreateService2"
    | "CreateProxy" -> x = "QueryServiceInfo" || x = "QueryServiceVersion"
    | "CallFunction" -> x = "CallFunction" || x = "CallFunction2"
    | "CreateBusListener" -> x = "CreateBusListener"
    | "StartBusListener" -> x = "StartBusListener"
    | "StopBusListener" -> x = "StopBusListener"
    | "CreateClaimedReceiver" | "CreateClaimedSender" -> x = "CreateChannel"
    | "SyncBroker" -> x = "Sync"
    | "Shutdown" -> x = "Shutdown"
    | "AddBusListenerFilter" -> x = "AddBusListenerFilter"
    | _ -> true
  in
  let produced () = List.rev !st.outlog in
  let explain_send (x : string list) (rest : string list list) : unit =
    let guard = ref 0 in
    let fin = ref false in
    while not !fin do
      incr guard;
      let p = produced () in
      if !consumed < List.length p then begin
        let (k, serial) = List.nth p !consumed in
        let same_kind = okind_name k = nth x 0 in
        let same_serial = match serial with Some s -> string_of_int (int_of_n s) = nth x 1 | None -> true in
        if same_kind && same_serial then incr consumed
        else set_mismatch (Printf.sprintf "sent:%s_%s/model:%s_%s" (nth x 0) (nth x 1) (okind_name k)
                             (match serial with Some s -> string_of_int (int_of_n s) | None -> "-"));
        fin := true
      end else if !guard > 60 then begin
        set_mismatch ("unexplained_send:" ^ nth x 0); fin := true
      end else begin
        match !st.phase with
        | Done _ | InlineFlush -> set_mismatch ("send_in_wrong_phase:" ^ nth x 0); fin := true
        | _ ->
          if !st.queue <> [] then feed ISelHandle
          else match !pendq with
            | (l, kind) :: t when can_produce kind (nth x 0) ->
                pendq := t; feed_request (Some l) (req_for_logged kind x)
            | _ ->
              (match req_of_msg x rest with
               | Some q -> feed_request None q
               | None ->
                 (match nth x 0 with
                  | "Shutdown" ->
                      (* no request asked for it: the last handle was dropped *)
                      let n = int_of_n !st.nh in
                      if n <= 1 then begin set_mismatch "unexplained_shutdown"; fin := true end
                      else for _ = 2 to n do feed_request None QHandleDropped done
                  | "AbortFunctionCall" ->
                      let serial = nn (nth x 1) in
                      (match label_of_call serial with
                       | Some l ->
                           (match obs_class l with
                            | Some "value" | Some "shutdown" -> set_mismatch ("abort_of_awaited_call:" ^ l)
                            | _ -> ());
                           dropped := List.filter (fun l' -> l' <> l) !dropped
                       | None -> ());
                      feed (ISelAbort serial)
                  | other -> set_mismatch ("unexplained_send:" ^ other); fin := true))
      end
    done
  in
  (* requests the application saw answered with a value have been handled by the client *)
  let settle_answered () =
    let rec last_value i best = function
      | [] -> best
      | (l, _) :: t -> last_value (i + 1) (if obs_class l = Some "value" then i else best) t in
    let upto = last_value 0 (-1) !pendq in
    let i = ref 0 in
    while !i <= upto do
      (match !pendq with
       | (l, kind) :: t -> pendq := t; feed_request (Some l) (req_for_logged kind [])
       | [] -> ());
      incr i
    done
  in
  let settle_all () =
    settle_answered ();
    List.iter (fun (l, kind) -> enqueue_only l (req_for_logged kind [])) !pendq;
    pendq := []
  in
  let rec go = function
    | [] -> ()
    | e :: rest ->
      silent_aborts ();
      (match e with
       | Enq (l, k) -> pendq := !pendq @ [(l, k)]
       | DropReply l -> dropped := !dropped @ [l]
       | Recv w ->
           let m = msg_of_words w in
           if m = MsgShutdown then settle_answered ();
           feed (ISelTransport (TMsg m))
       | Send x ->
           let following = List.filter_map (function Send y -> Some y | _ -> None)
               (let rec upto = function (Send y) :: t -> Send y :: upto t | _ -> [] in upto rest) in
           explain_send x following
       | FlushOk ->
           if !consumed < List.length (produced ()) then begin
             (* a message the model has sent is missing on the wire *)
             let (k, _) = List.nth (produced ()) !consumed in
             set_mismatch ("not_sent:" ^ okind_name k)
           end;
           feed (ISelFlushed None)
       | RecvErr c -> settle_all (); feed (ISelTransport (TErr (n_of_int c)))
       | FlushErr c -> settle_all (); feed (ISelFlushed (Some (n_of_int c))));
      go rest
  in
  (* `client.handle().clone()` before run: the first request in the queue *)
  feed_request None QHandleCloned;
  go events;
  silent_aborts ();
  settle_all ();
  let res = match !st.phase with
    | Done None -> "ok"
    | Done (Some (ETransport c)) -> Printf.sprintf "transport%d" (int_of_n c)
    | Done (Some _) -> "other"
    | _ -> "none" in
  let by_label : (string, string) Hashtbl.t = Hashtbl.create 16 in
  Hashtbl.iter (fun w l ->
    let cls =
      match List.find_opt (fun (x, _) -> int_of_n x = w) !st.resolved with
      | Some (_, Sent) -> "value"
      | Some (_, Dropped) -> if obs_class l = Some "dropped" then "dropped" else "shutdown"
      | None -> "pending" in
    Hashtbl.replace by_label l cls) labels;
  let ws = List.map (fun l -> l ^ ":" ^ (try Hashtbl.find by_label l with Not_found -> "unknown"))
      (List.sort_uniq compare (List.map fst obs)) in
  ignore result;
  Printf.sprintf "result=%s waiters=%s%s" res (if ws = [] then "-" else String.concat "," ws)
    (match !mismatch with Some m -> " mismatch=" ^ m | None -> "")

let () =
  let ic = open_in Sys.argv.(1) in
  let oc = open_out Sys.argv.(2) in
  let ver = ref 20 and events = ref [] and obs = ref [] and result = ref "none" in
  (try
     while true do
       let line = input_line ic in
       match words line with
       | "begin" :: _ :: v :: _ -> ver := num v; events := []; obs := []; result := "none"
       | "enq" :: l :: k :: _ -> events := Enq (l, k) :: !events
       | "drop" :: l :: _ -> events := DropReply l :: !events
       | "recv" :: w -> events := Recv w :: !events
       | "send" :: w -> events := Send w :: !events
       | "flush" :: _ -> events := FlushOk :: !events
       | "recverr" :: c :: _ -> events := RecvErr (num c) :: !events
       | "flusherr" :: c :: _ -> events := FlushErr (num c) :: !events
       | "obs" :: l :: c :: _ -> obs := (l, c) :: !obs
       | "result" :: r :: _ -> result := r
       | "end" :: _ ->
           let out =
             if !result = "connect_failed" || !result = "panic" then Printf.sprintf "result=%s waiters=-" !result
             else (try run_block !ver (List.rev !events) (List.rev !obs) !result
                   with ex -> "driver exception " ^ Printexc.to_string ex) in
           output_string oc (out ^ "\n")
       | _ -> ()
     done
   with End_of_file -> ());
  close_in ic; close_out oc
