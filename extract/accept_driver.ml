(* accept_driver.ml — runs the extracted handshake model (accept_model.ml) on a cases file:
   one op per line, one result per line, same syntax as harness/src/bin/accept.rs. *)
open Accept_model

(* ---------- numbers: Coq positive/N <-> OCaml (copied from codec_driver.ml) ---------- *)
let n_of_dec (s : string) : n =
  let digits = Array.init (String.length s) (fun i -> Char.code s.[i] - 48) in
  let len = Array.length digits in
  let is_zero () = Array.for_all (fun d -> d = 0) digits in
  let halve () =
    let carry = ref 0 in
    for i = 0 to len - 1 do
      let cur = !carry * 10 + digits.(i) in
      digits.(i) <- cur / 2; carry := cur mod 2
    done; !carry in
  let rec bits acc = if is_zero () then List.rev acc else let b = halve () in bits (b :: acc) in
  let bs = bits [] in
  let rec build = function
    | [] -> None
    | b :: rest -> (match build rest with
        | None -> if b = 1 then Some XH else None
        | Some p -> Some (if b = 1 then XI p else XO p)) in
  match build bs with None -> N0 | Some p -> Npos p

let dec_of_pos (p : positive) : string =
  let rec bits p acc = match p with XH -> 1 :: acc | XO q -> bits q (0 :: acc) | XI q -> bits q (1 :: acc) in
  let bs = bits p [] in
  let double_add digs b =
    let carry = ref b in
    let r = List.map (fun d -> let v = 2 * d + !carry in carry := v / 10; v mod 10) digs in
    if !carry > 0 then r @ [!carry] else r in
  let digs = List.fold_left double_add [0] bs in
  String.concat "" (List.rev_map string_of_int digs)
let dec_of_n = function N0 -> "0" | Npos p -> dec_of_pos p

let ver (v : n * n) = dec_of_n (fst v) ^ "." ^ dec_of_n (snd v)

let reply_text = function
  | RNone -> "none"
  | RConnectReplyOk -> "replyok"
  | RConnectReplyIncompatible v -> "replyinc " ^ dec_of_n v
  | RConnectReply2Ok m -> "reply2ok " ^ dec_of_n m
  | RConnectReply2Incompatible -> "reply2inc"

let accept_text (h : hello) : string =
  let (a, r) = accept h in
  match a with
  | AUnexpected -> "unexpected " ^ reply_text r
  | AIncompatible v -> "incompatible " ^ ver v ^ " " ^ reply_text r
  | AAccepted (c2, v) -> "accepted " ^ (if c2 then "c2 " else "c1 ") ^ ver v ^ " " ^ reply_text r

let client_text = function
  | KConnected v -> "connected " ^ ver v
  | KIncompatible -> "incompatible"
  | KUnexpected -> "unexpected"

(* broker side of a full handshake as the harness prints it (no reply, no dialect) *)
let full_text (h : hello) (client : broker_reply -> client_result) : string =
  let (a, r) = accept h in
  let b = match a with
    | AUnexpected -> "unexpected"
    | AIncompatible v -> "incompatible " ^ ver v
    | AAccepted (_, v) -> "accepted " ^ ver v in
  "full " ^ b ^ " | " ^ client_text (client r)

let run_op (line : string) : string =
  match String.split_on_char ' ' (String.trim line) with
  | ["A1"; v] -> accept_text (HConnect (n_of_dec v))
  | ["A2"; ma; mi] -> accept_text (HConnect2 (n_of_dec ma, n_of_dec mi))
  | ["AO"] -> accept_text HOther
  | ["K2OK"; m] -> client_text (client_connect (RConnectReply2Ok (n_of_dec m)))
  | ["K2INC"] -> client_text (client_connect RConnectReply2Incompatible)
  | ["K1OK"] -> client_text (client_connect1 RConnectReplyOk)
  | ["K1INC"; v] -> client_text (client_connect1 (RConnectReplyIncompatible (n_of_dec v)))
  | ["F2"] -> full_text (HConnect2 (fst cLIENT_VERSION, snd cLIENT_VERSION)) client_connect
  | ["F1"] -> full_text (HConnect (snd cLIENT1_VERSION)) client_connect1
  | _ -> "!BADOP"

let () =
  let ic = open_in Sys.argv.(1) in
  let oc = open_out Sys.argv.(2) in
  (try
     while true do
       let line = input_line ic in
       let r = try run_op line with e -> "!EXN " ^ Printexc.to_string e in
       output_string oc r; output_char oc '\n'
     done
   with End_of_file -> ());
  close_in ic; close_out oc
