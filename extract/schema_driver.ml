(* schema_driver.ml — runs the extracted schema model (schema_model.ml) on a cases file: one op
   per line, one result per line; AST syntax as in harness/src/schema/ast.rs (dump).
     print <ast>          -> hex of [print a]
     parse <hex-source>   -> ok <ast> | err | unk   ([parse_toks (tokenize src)]; unk = TUnk seen)
     rt <ast>             -> ok | bad               ([parse_toks (toks a) = Some (canon a)])
     lex <ast>            -> ok | bad               ([tokenize (print a) = toks a])
     span <n> (<start> <end> s<hex>)*n <sl> <sc> <el> <ec> -> <start> <end> | underflow *)
type ostring = string
open Schema_model

let rec pos_of_int i = if i = 1 then XH else if i land 1 = 0 then XO (pos_of_int (i lsr 1)) else XI (pos_of_int (i lsr 1))
let n_of_int i = if i = 0 then N0 else Npos (pos_of_int i)
let rec int_of_pos = function XH -> 1 | XO p -> 2 * int_of_pos p | XI p -> 2 * int_of_pos p + 1
let int_of_n = function N0 -> 0 | Npos p -> int_of_pos p

(* ---------- strings: OCaml <-> Coq string (list of ascii) ---------- *)
let ascii_tab = Array.init 256 (fun i ->
  let b k = (i lsr k) land 1 = 1 in Ascii (b 0, b 1, b 2, b 3, b 4, b 5, b 6, b 7))
let int_of_ascii (Ascii (b0, b1, b2, b3, b4, b5, b6, b7)) =
  let v b k = if b then 1 lsl k else 0 in
  v b0 0 + v b1 1 + v b2 2 + v b3 3 + v b4 4 + v b5 5 + v b6 6 + v b7 7
let coq_of_string (s : ostring) : Schema_model.string =
  let r = ref EmptyString in
  for i = String.length s - 1 downto 0 do r := String (ascii_tab.(Char.code s.[i]), !r) done; !r
let string_of_coq (s : Schema_model.string) : ostring =
  let b = Buffer.create 64 in
  let rec go = function EmptyString -> () | String (c, r) -> Buffer.add_char b (Char.chr (int_of_ascii c)); go r in
  go s; Buffer.contents b

let hexval c = match c with '0'..'9' -> Char.code c - 48 | 'a'..'f' -> Char.code c - 87 | 'A'..'F' -> Char.code c - 55 | _ -> failwith "hex"
let unhex (s : ostring) : ostring =
  String.init (String.length s / 2) (fun i -> Char.chr (16 * hexval s.[2*i] + hexval s.[2*i+1]))
let hex (s : ostring) : ostring =
  let b = Buffer.create (2 * String.length s) in
  String.iter (fun c -> Buffer.add_string b (Printf.sprintf "%02x" (Char.code c))) s; Buffer.contents b

(* ---------- AST text -> Coq AST ---------- *)
exception Bad of ostring
type cur = { toks : ostring array; mutable i : int }
let peek c = if c.i < Array.length c.toks then c.toks.(c.i) else raise (Bad "eof")
let next c = let t = peek c in c.i <- c.i + 1; t
let expect c t = let x = next c in if x <> t then raise (Bad ("expected " ^ t ^ " got " ^ x))
let p_str c = let t = next c in
  if String.length t = 0 || t.[0] <> 's' then raise (Bad ("string expected: " ^ t));
  coq_of_string (unhex (String.sub t 1 (String.length t - 1)))
let p_list c f = expect c "["; let rec go acc = if peek c = "]" then (ignore (next c); List.rev acc) else go (f c :: acc) in go []
let p_opt c f = match next c with "-" -> None | "+" -> Some (f c) | t -> raise (Bad ("option expected: " ^ t))
let p_strs c = p_list c p_str
let p_bool c = match next c with "0" -> false | "1" -> true | t -> raise (Bad ("bool expected: " ^ t))

let prims = [("bool", PBool); ("u8", PU8); ("i8", PI8); ("u16", PU16); ("i16", PI16); ("u32", PU32); ("i32", PI32);
  ("u64", PU64); ("i64", PI64); ("f32", PF32); ("f64", PF64); ("string", PString); ("uuid", PUuid);
  ("object_id", PObjectId); ("service_id", PServiceId); ("value", PValue); ("bytes", PBytes);
  ("lifetime", PLifetime); ("unit", PUnit)]
let gens = [("option", GOption); ("box", GBox); ("vec", GVec); ("set", GSet); ("sender", GSender); ("receiver", GReceiver)]
let ctys = [("u8", CU8); ("i8", CI8); ("u16", CU16); ("i16", CI16); ("u32", CU32); ("i32", CI32); ("u64", CU64);
  ("i64", CI64); ("string", CString); ("uuid", CUuid)]
let rassoc v l = fst (List.find (fun (_, x) -> x = v) l)

let p_nref c = match next c with
  | "i" -> Intern (p_str c)
  | "e" -> let a = p_str c in let b = p_str c in Extern (a, b)
  | t -> raise (Bad ("nref: " ^ t))
let rec p_ty c =
  let t = next c in
  match List.assoc_opt t prims with
  | Some p -> TPrim p
  | None ->
    match List.assoc_opt t gens with
    | Some g -> TGen (g, p_ty c)
    | None ->
      match t with
      | "map" -> let a = p_ty c in let b = p_ty c in TMap (a, b)
      | "result" -> let a = p_ty c in let b = p_ty c in TResult (a, b)
      | "array" -> let a = p_ty c in
          let l = (match next c with "lit" -> LLit (p_str c) | "lref" -> LRef (p_nref c) | t -> raise (Bad ("alen: " ^ t))) in
          TArray (a, l)
      | "ref" -> TRef (p_nref c)
      | _ -> raise (Bad ("type: " ^ t))
let p_attr c = let n = p_str c in let o = p_strs c in { a_name = n; a_opts = o }
let p_field c =
  let cm = p_strs c in let d = p_strs c in let r = p_bool c in let n = p_str c in let i = p_str c in let t = p_ty c in
  { f_comment = cm; f_doc = d; f_req = r; f_name = n; f_id = i; f_ty = t }
let p_fb c = let cm = p_strs c in let d = p_strs c in let n = p_str c in { fb_comment = cm; fb_doc = d; fb_name = n }
let p_var c =
  let cm = p_strs c in let d = p_strs c in let n = p_str c in let i = p_str c in let t = p_opt c p_ty in
  { v_comment = cm; v_doc = d; v_name = n; v_id = i; v_ty = t }
let p_tyinl c = match next c with
  | "Ty" -> ITy (p_ty c)
  | "IS" -> let d = p_strs c in let a = p_list c p_attr in let f = p_list c p_field in let fb = p_opt c p_fb in IStruct (d, a, f, fb)
  | "IE" -> let d = p_strs c in let a = p_list c p_attr in let f = p_list c p_var in let fb = p_opt c p_fb in IEnum (d, a, f, fb)
  | t -> raise (Bad ("tyinl: " ^ t))
let p_part c = let cm = p_strs c in let t = p_tyinl c in { p_comment = cm; p_ty = t }
let p_item c = match next c with
  | "Fn" -> let cm = p_strs c in let d = p_strs c in let n = p_str c in let i = p_str c in
      let a = p_opt c p_part in let o = p_opt c p_part in let e = p_opt c p_part in
      IFn { fn_comment = cm; fn_doc = d; fn_name = n; fn_id = i; fn_args = a; fn_ok = o; fn_err = e }
  | "Ev" -> let cm = p_strs c in let d = p_strs c in let n = p_str c in let i = p_str c in let t = p_opt c p_tyinl in
      IEv { ev_comment = cm; ev_doc = d; ev_name = n; ev_id = i; ev_ty = t }
  | t -> raise (Bad ("item: " ^ t))
let p_def c = match next c with
  | "St" -> let cm = p_strs c in let d = p_strs c in let a = p_list c p_attr in let n = p_str c in
      let f = p_list c p_field in let fb = p_opt c p_fb in
      DStruct { sd_comment = cm; sd_doc = d; sd_attrs = a; sd_name = n; sd_fields = f; sd_fb = fb }
  | "En" -> let cm = p_strs c in let d = p_strs c in let a = p_list c p_attr in let n = p_str c in
      let f = p_list c p_var in let fb = p_opt c p_fb in
      DEnum { ed_comment = cm; ed_doc = d; ed_attrs = a; ed_name = n; ed_vars = f; ed_fb = fb }
  | "Sv" -> let cm = p_strs c in let d = p_strs c in let n = p_str c in let uc = p_strs c in let u = p_str c in
      let vc = p_strs c in let v = p_str c in let items = p_list c p_item in let f = p_opt c p_fb in let e = p_opt c p_fb in
      DService { sv_comment = cm; sv_doc = d; sv_name = n; sv_uuid_comment = uc; sv_uuid = u; sv_ver_comment = vc;
                 sv_ver = v; sv_items = items; sv_fn_fb = f; sv_ev_fb = e }
  | "Co" -> let cm = p_strs c in let d = p_strs c in let n = p_str c in
      let t = (let x = next c in match List.assoc_opt x ctys with Some t -> t | None -> raise (Bad ("cty: " ^ x))) in
      let v = p_str c in
      DConst { cd_comment = cm; cd_doc = d; cd_name = n; cd_ty = t; cd_val = v }
  | "Nt" -> let cm = p_strs c in let d = p_strs c in let a = p_list c p_attr in let n = p_str c in let t = p_ty c in
      DNewtype { nd_comment = cm; nd_doc = d; nd_attrs = a; nd_name = n; nd_ty = t }
  | t -> raise (Bad ("def: " ^ t))
let p_schema c =
  let cm = p_strs c in let d = p_strs c in
  let is = p_list c (fun c -> let cm = p_strs c in let n = p_str c in { i_comment = cm; i_name = n }) in
  let ds = p_list c p_def in
  { s_comment = cm; s_doc = d; s_imports = is; s_defs = ds }

(* ---------- Coq AST -> text ---------- *)
let dump (a : schema) : ostring =
  let b = Buffer.create 256 in
  let first = ref true in
  let w t = if !first then first := false else Buffer.add_char b ' '; Buffer.add_string b t in
  let s x = w ("s" ^ hex (string_of_coq x)) in
  let list l f = w "["; List.iter f l; w "]" in
  let opt o f = match o with None -> w "-" | Some x -> w "+"; f x in
  let ss l = list l s in
  let nref = function Intern n -> w "i"; s n | Extern (x, y) -> w "e"; s x; s y in
  let rec ty = function
    | TPrim p -> w (rassoc p prims)
    | TGen (g, a) -> w (rassoc g gens); ty a
    | TMap (a, c) -> w "map"; ty a; ty c
    | TResult (a, c) -> w "result"; ty a; ty c
    | TArray (a, l) -> w "array"; ty a; (match l with LLit x -> w "lit"; s x | LRef r -> w "lref"; nref r)
    | TRef r -> w "ref"; nref r in
  let attr a = s a.a_name; ss a.a_opts in
  let field f = ss f.f_comment; ss f.f_doc; w (if f.f_req then "1" else "0"); s f.f_name; s f.f_id; ty f.f_ty in
  let fb f = ss f.fb_comment; ss f.fb_doc; s f.fb_name in
  let var v = ss v.v_comment; ss v.v_doc; s v.v_name; s v.v_id; opt v.v_ty ty in
  let tyinl = function
    | ITy t -> w "Ty"; ty t
    | IStruct (d, a, f, x) -> w "IS"; ss d; list a attr; list f field; opt x fb
    | IEnum (d, a, f, x) -> w "IE"; ss d; list a attr; list f var; opt x fb in
  let part p = ss p.p_comment; tyinl p.p_ty in
  let item = function
    | IFn f -> w "Fn"; ss f.fn_comment; ss f.fn_doc; s f.fn_name; s f.fn_id; opt f.fn_args part; opt f.fn_ok part; opt f.fn_err part
    | IEv e -> w "Ev"; ss e.ev_comment; ss e.ev_doc; s e.ev_name; s e.ev_id; opt e.ev_ty tyinl in
  let def = function
    | DStruct d -> w "St"; ss d.sd_comment; ss d.sd_doc; list d.sd_attrs attr; s d.sd_name; list d.sd_fields field; opt d.sd_fb fb
    | DEnum d -> w "En"; ss d.ed_comment; ss d.ed_doc; list d.ed_attrs attr; s d.ed_name; list d.ed_vars var; opt d.ed_fb fb
    | DService d -> w "Sv"; ss d.sv_comment; ss d.sv_doc; s d.sv_name; ss d.sv_uuid_comment; s d.sv_uuid;
        ss d.sv_ver_comment; s d.sv_ver; list d.sv_items item; opt d.sv_fn_fb fb; opt d.sv_ev_fb fb
    | DConst d -> w "Co"; ss d.cd_comment; ss d.cd_doc; s d.cd_name; w (rassoc d.cd_ty ctys); s d.cd_val
    | DNewtype d -> w "Nt"; ss d.nd_comment; ss d.nd_doc; list d.nd_attrs attr; s d.nd_name; ty d.nd_ty in
  ss a.s_comment; ss a.s_doc; list a.s_imports (fun i -> ss i.i_comment; s i.i_name); list a.s_defs def;
  Buffer.contents b

(* ---------- ops ---------- *)
let split_ws (l : ostring) : ostring list = List.filter (fun x -> x <> "") (String.split_on_char ' ' l)

let run_line (l : ostring) : ostring =
  match split_ws l with
  | [] -> ""
  | "print" :: rest ->
      let a = p_schema { toks = Array.of_list rest; i = 0 } in hex (string_of_coq (print a))
  | ["parse"] ->
      (match parse_toks (tokenize EmptyString) with Some a -> "ok " ^ dump a | None -> "err")
  | ["parse"; h] ->
      let ts = tokenize (coq_of_string (unhex h)) in
      if List.exists (fun t -> t = TUnk) ts then "unk"
      else (match parse_toks ts with Some a -> "ok " ^ dump a | None -> "err")
  | "rt" :: rest ->
      let a = p_schema { toks = Array.of_list rest; i = 0 } in
      (match parse_toks (toks a) with Some b when b = canon a -> "ok" | _ -> "bad")
  | "lex" :: rest ->
      let a = p_schema { toks = Array.of_list rest; i = 0 } in
      if tokenize (print a) = toks a then "ok" else "bad"
  | "span" :: n :: rest ->
      let n = int_of_string n in
      let arr = Array.of_list rest in
      let docs = List.init n (fun k ->
        let t = arr.(3 * k + 2) in
        { d_start = n_of_int (int_of_string arr.(3 * k)); d_end = n_of_int (int_of_string arr.(3 * k + 1));
          d_value = coq_of_string (unhex (String.sub t 1 (String.length t - 1))) }) in
      let g k = n_of_int (int_of_string arr.(3 * n + k)) in
      (match sourcepos_to_span docs (g 0) (g 1) (g 2) (g 3) with
       | SPanic -> "underflow"
       | SSpan (s, e) -> Printf.sprintf "%d %d" (int_of_n s) (int_of_n e))
  | op :: _ -> "?" ^ op

let () =
  let ic = open_in Sys.argv.(1) and oc = open_out Sys.argv.(2) in
  (try
     while true do
       let l = input_line ic in
       let r = (try run_line l with Bad m -> "!bad " ^ m | Stack_overflow -> "!stack" | Not_found -> "!notfound"
                                  | Failure m -> "!fail " ^ m | Invalid_argument m -> "!inv " ^ m) in
       output_string oc r; output_char oc '\n'
     done
   with End_of_file -> ());
  close_in ic; close_out oc
