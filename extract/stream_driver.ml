(* stream_driver.ml — runs the extracted packetizer / TokioTransport / Buffered model
   (stream_model.ml) on a cases file: one operation per line, one result per line, same syntax
   as harness/src/bin/stream.rs.  The state (one packetizer, one transport, one buffered
   transport) persists between lines; `new` / `tnew` / `bnew` reset it. *)
open Stream_model

(* ---------- numbers: Coq positive/N <-> OCaml ---------- *)
let rec pos_of_int i = if i = 1 then XH else if i land 1 = 0 then XO (pos_of_int (i lsr 1)) else XI (pos_of_int (i lsr 1))
let n_of_int i = if i = 0 then N0 else Npos (pos_of_int i)
let rec int_of_pos = function XH -> 1 | XO p -> 2 * int_of_pos p | XI p -> 2 * int_of_pos p + 1
let int_of_n = function N0 -> 0 | Npos p -> int_of_pos p

(* ---------- bytes ---------- *)
let byte_tab = Array.init 256 n_of_int
let hexval c = match c with '0'..'9' -> Char.code c - 48 | 'a'..'f' -> Char.code c - 87 | 'A'..'F' -> Char.code c - 55 | _ -> failwith "hex"
let bytes_of_hex (s : string) : n list =
  if s = "-" then [] else
  let len = String.length s / 2 in
  let rec go i acc = if i < 0 then acc else go (i - 1) (byte_tab.(16 * hexval s.[2*i] + hexval s.[2*i+1]) :: acc) in
  go (len - 1) []

(* short byte strings in hex, long ones as #<length>:<fnv-1a 32> *)
let blob (l : n list) : string =
  let len = List.length l in
  if len = 0 then "-"
  else if len <= 32 then begin
    let b = Buffer.create 64 in
    List.iter (fun x -> Buffer.add_string b (Printf.sprintf "%02x" (int_of_n x))) l;
    Buffer.contents b
  end else begin
    let h = ref 0x811c9dc5 in
    List.iter (fun x -> h := ((!h lxor (int_of_n x)) * 16777619) land 0xffffffff) l;
    Printf.sprintf "#%d:%08x" len !h
  end

let split_on c s = if s = "-" || s = "" then [] else String.split_on_char c s
let nums s = List.map (fun x -> n_of_int (int_of_string x)) (split_on ',' s)

let rscript_of s =
  List.map (fun tok ->
    match tok.[0] with
    | 'd' -> ReadOk (bytes_of_hex (String.sub tok 1 (String.length tok - 1)))
    | 'z' -> ReadOk []
    | 'p' -> ReadPending
    | 'e' -> ReadErr (n_of_int (int_of_string (String.sub tok 1 (String.length tok - 1))))
    | _ -> failwith ("rscript " ^ tok)) (split_on ',' s)
let wscript_of s =
  List.map (fun tok ->
    match tok.[0] with
    | 'w' -> WriteOk (n_of_int (int_of_string (String.sub tok 1 (String.length tok - 1))))
    | 'p' -> WritePending
    | 'e' -> WriteErr (n_of_int (int_of_string (String.sub tok 1 (String.length tok - 1))))
    | _ -> failwith ("wscript " ^ tok)) (split_on ',' s)

let terr_s = function
  | EIo k -> Printf.sprintf "err io%d" (int_of_n k)
  | EUnexpectedEof -> "err eof"
  | EWriteZero -> "err writezero"
let poll_s f = function
  | PReady a -> f a
  | PErr e -> terr_s e
  | PPending -> "pending"
  | PPanic -> "panic"
  | PFuel -> "FUEL"

let sh = this_shape
let p = ref pk_new
let t = ref (tk_new [] [])
let b = ref (bf_new [] [])

let arg ws i = match List.nth_opt ws i with Some x -> x | None -> "-"

let exec (line : string) : string =
  let ws = String.split_on_char ' ' line in
  match List.hd ws with
  | "new" -> p := pk_new; "-"
  | "ext" ->
      let (s', _) = step sh (OExt (n_of_int (int_of_string (arg ws 1)), bytes_of_hex (arg ws 2))) !p in
      p := s'; "-"
  | "spare" ->
      let (s', ob) = step sh (OSpare (n_of_int (int_of_string (arg ws 1)))) !p in
      (match ob with
       | ObsSlice k -> p := s'; if spare_asserts k then "panic" else Printf.sprintf "slice %d" (int_of_n k)
       | _ -> "?")
  | "wr" ->
      let (s', ob) = step sh (OWr (bytes_of_hex (arg ws 1))) !p in
      p := s'; (match ob with ObsWritten true -> "ok" | ObsWritten false -> "unsafe" | _ -> "?")
  | "next" ->
      let (s', ob) = step sh ONext !p in
      p := s'; (match ob with ObsMsg None -> "none" | ObsMsg (Some m) -> "some " ^ blob m | _ -> "?")
  | "drain" ->
      let (s', ms) = drain_all !p in
      p := s'; String.concat " " (("frames " ^ string_of_int (List.length ms)) :: List.map blob ms)
  | "tnew" -> t := tk_new (rscript_of (arg ws 1)) (wscript_of (arg ws 2)); "-"
  | "trecv" ->
      let ((t', r), c) = receive_poll sh (recv_fuel !t) (nums (arg ws 1)) !t in
      t := t'; poll_s (fun f -> "ready " ^ blob f) r ^ " in=" ^ blob c
  | "tsend" -> t := send_start (bytes_of_hex (arg ws 1)) !t; "ok"
  | "tready" ->
      let ((t', r), o) = send_poll_ready !t in
      t := t'; poll_s (fun () -> "ready") r ^ " out=" ^ blob o
  | "tflush" ->
      let ((t', r), o) = send_poll_flush !t in
      t := t'; poll_s (fun () -> "ready") r ^ " out=" ^ blob o
  | "bnew" -> b := bf_new (rscript_of (arg ws 1)) (wscript_of (arg ws 2)); "-"
  | "brecv" ->
      let ((b', r), c) = b_receive_poll sh (recv_fuel (!b).inner) (nums (arg ws 1)) !b in
      b := b'; poll_s (fun f -> "ready " ^ blob f) r ^ " in=" ^ blob c
  | "bsend" -> b := b_send_start (bytes_of_hex (arg ws 1)) !b; "ok"
  | "bready" ->
      let ((b', r), o) = b_send_poll_ready !b in
      b := b'; poll_s (fun () -> "ready") r ^ " out=" ^ blob o
  | "bflush" ->
      let ((b', r), o) = b_send_poll_flush !b in
      b := b'; poll_s (fun () -> "ready") r ^ " out=" ^ blob o
  | "#" | "" -> "-"
  | w -> "?unknown-op " ^ w

let () =
  let ic = open_in Sys.argv.(1) and oc = open_out Sys.argv.(2) in
  (try
     while true do
       let line = input_line ic in
       let r = (try exec line with e -> "!MODEL-EXN " ^ Printexc.to_string e) in
       output_string oc r; output_char oc '\n'
     done
   with End_of_file -> ());
  close_in ic; close_out oc
