(* credit_driver.ml — replays the schedules of harness/src/bin/chanflow.rs (cases.txt, one step
   per line) through the extracted end-to-end credit model (credit_model.ml = Proto/Credit.v:
   winit, wstep, send_ready, recv_result) and prints, per line, the observation of the step and
   the state of the four links afterwards, in the format of the harness's impl.txt:

     <obs> | sb=<..> rb=<..> bs=<..> br=<..> | cs=<st> cr=<st>

   cases.txt lines:
     new <seed> <cap> <same>     a new established channel, receiver capacity <cap>; <same>=1: both
                                 ends on one client/connection
     send <v> | readyS | probeS | recv | closeS | closeR | dropS | dropR | brokerS | brokerR |
     clientS | clientR
   <obs>: send -> sent|pend|err; readyS (poll_send_ready alone) -> ok|pend|err; probeS
   (poll_receiver_closed) -> closed|pend; recv -> item:<v>|end|pend; otherwise "-"; a line the model
   refuses (flag set) is printed as "!cut", "!overflow", "!panic:<site>", "!unexpected".
   Links: comma-separated, "-" when empty; sb: i<v> c; rb: a<n> c; bs: a<n> pc r<ok|inv|for>;
   br: i<v> pc r<ok|inv|for>.  cs/cr: none|pend|ok|err|gone (the end's close future). *)
open Credit_model

let rec pos_of_int i = if i = 1 then XH else if i land 1 = 0 then XO (pos_of_int (i lsr 1)) else XI (pos_of_int (i lsr 1))
let n_of_int i = if i = 0 then N0 else Npos (pos_of_int i)
let rec int_of_pos = function XH -> 1 | XO p -> 2 * int_of_pos p | XI p -> 2 * int_of_pos p + 1
let int_of_n = function N0 -> 0 | Npos p -> int_of_pos p
let n_of_string s = n_of_int (int_of_string s)
let sn n = string_of_int (int_of_n n)

let res3 = function R3Ok -> "ok" | R3Invalid -> "inv" | R3Foreign -> "for"
let join f l = if l = [] then "-" else String.concat "," (List.map f l)
let sb = join (function SItem v -> "i" ^ sn v | SClose -> "c")
let rb = join (function RAdd n -> "a" ^ sn n | RClose -> "c")
let bs = join (function BSAdd n -> "a" ^ sn n | BSPeerClosed -> "pc" | BSCloseReply r -> "r" ^ res3 r)
let br = join (function BRItem v -> "i" ^ sn v | BRPeerClosed -> "pc" | BRCloseReply r -> "r" ^ res3 r)
let close_st dropped = function
  | _ when dropped -> "gone"
  | KNone -> "none" | KPending -> "pend" | KDone R3Ok -> "ok" | KDone _ -> "err"

let () =
  let ic = open_in Sys.argv.(1) and oc = open_out Sys.argv.(2) in
  let cs = ref (n_of_int 1) and cr = ref (n_of_int 2) in
  let w = ref (winit !cs !cr (n_of_int 1)) in
  let drop_s = ref false and drop_r = ref false in
  (try
     while true do
       let line = input_line ic in
       let toks = String.split_on_char ' ' (String.trim line) in
       let step a = w := wstep !cs !cr !w a in
       let obs =
         match toks with
         | ["new"; _; cap; same] ->
             cs := n_of_int 1;
             cr := n_of_int (if same = "1" then 1 else 2);
             w := winit !cs !cr (n_of_string cap);
             drop_s := false; drop_r := false; "-"
         | ["send"; v] ->
             let r = send_ready !w in
             step (ASend (n_of_string v));
             (match r with RdOk -> "sent" | RdPending -> "pend" | RdErr -> "err")
         | ["readyS"] ->
             let r = send_ready !w in
             step APollReady;
             (match r with RdOk -> "ok" | RdPending -> "pend" | RdErr -> "err")
         | ["probeS"] ->
             let r = receiver_closed !w in
             step APollClosed;
             if r then "closed" else "pend"
         | ["recv"] ->
             let r = recv_result !w in
             step ARecv;
             (match r with GotItem v -> "item:" ^ sn v | GotEnd -> "end" | GotPending -> "pend")
         | ["closeS"] -> step ACloseS; "-"
         | ["closeR"] -> step ACloseR; "-"
         | ["dropS"] -> step ACloseS; drop_s := true; "-"
         | ["dropR"] -> step ACloseR; drop_r := true; "-"
         | ["brokerS"] -> step BrokerS; "-"
         | ["brokerR"] -> step BrokerR; "-"
         | ["clientS"] -> step ClientS; "-"
         | ["clientR"] -> step ClientR; "-"
         | [""] | [] -> ""
         | _ -> "?bad-line"
       in
       if obs = "" then output_string oc "\n"
       else begin
         let x = !w in
         let obs =
           if x.f_cut then "!cut"
           else if x.f_ovf then "!overflow"
           else (match x.f_panic with Some s -> "!panic:" ^ sn s | None -> if x.f_unexp then "!unexpected" else obs) in
         Printf.fprintf oc "%s | sb=%s rb=%s bs=%s br=%s | cs=%s cr=%s\n" obs
           (sb x.q_sb) (rb x.q_rb) (bs x.q_bs) (br x.q_br)
           (close_st !drop_s x.sd_res) (close_st !drop_r x.rv_res)
       end
     done
   with End_of_file -> ());
  close_out oc
