(* intro_driver.ml — runs the extracted introspection model (intro_model.ml) on a cases file.
   A line `U <n> <node>...` installs a universe (answer `ok`); the following lines
   `lexid i | canon i | cbytes i | tid i | intro i | rt i` refer to it.  Same syntax as
   harness/src/bin/intro.rs.  The hash handed to the model is UUIDv5 (SHA-1, below). *)
open Intro_model

(* ---------- numbers (copied from codec_driver.ml) ---------- *)
let rec pos_of_int i = if i = 1 then XH else if i land 1 = 0 then XO (pos_of_int (i lsr 1)) else XI (pos_of_int (i lsr 1))
let n_of_int i = if i = 0 then N0 else Npos (pos_of_int i)
let rec int_of_pos = function XH -> 1 | XO p -> 2 * int_of_pos p | XI p -> 2 * int_of_pos p + 1
let int_of_n = function N0 -> 0 | Npos p -> int_of_pos p
let rec nat_of_int i = if i <= 0 then O else S (nat_of_int (i - 1))

let dec_of_pos (p : positive) : string =
  let rec bits p acc = match p with XH -> 1 :: acc | XO q -> bits q (0 :: acc) | XI q -> bits q (1 :: acc) in
  let bs = bits p [] in
  let double_add digs b =
    let carry = ref b in
    let r = List.map (fun d -> let v = 2 * d + !carry in carry := v / 10; v mod 10) digs in
    if !carry > 0 then r @ [!carry] else r in
  let digs = List.fold_left double_add [0] bs in
  String.concat "" (List.rev_map string_of_int digs)
let dec_of_n = function N0 -> "0" | Npos p -> dec_of_pos p
let dec_of_z = function Z0 -> "0" | Zpos p -> dec_of_pos p | Zneg p -> "-" ^ dec_of_pos p

let byte_tab = Array.init 256 n_of_int
let hexval c = match c with '0'..'9' -> Char.code c - 48 | 'a'..'f' -> Char.code c - 87 | 'A'..'F' -> Char.code c - 55 | _ -> failwith "hex"
let bytes_of_hex (s : string) : n list =
  let len = String.length s / 2 in
  let rec go i acc = if i < 0 then acc else go (i - 1) (byte_tab.(16 * hexval s.[2*i] + hexval s.[2*i+1]) :: acc) in
  go (len - 1) []
let hex_of_bytes (l : n list) : string =
  let b = Buffer.create 64 in
  List.iter (fun x -> Buffer.add_string b (Printf.sprintf "%02x" (int_of_n x))) l;
  Buffer.contents b

(* ---------- SHA-1 and UUIDv5 ---------- *)
let sha1 (msg : int list) : int list =
  let m32 = 0xFFFFFFFF in
  let rotl x k = ((x lsl k) lor (x lsr (32 - k))) land m32 in
  let len = List.length msg in
  let padlen = let r = (len + 1) mod 64 in if r <= 56 then 56 - r else 120 - r in
  let bitlen = len * 8 in
  let tail = List.init 8 (fun i -> (bitlen lsr (8 * (7 - i))) land 255) in
  let data = Array.of_list (msg @ [0x80] @ List.init padlen (fun _ -> 0) @ tail) in
  let h0 = ref 0x67452301 and h1 = ref 0xEFCDAB89 and h2 = ref 0x98BADCFE and h3 = ref 0x10325476 and h4 = ref 0xC3D2E1F0 in
  let w = Array.make 80 0 in
  for blk = 0 to Array.length data / 64 - 1 do
    for i = 0 to 15 do
      let o = blk * 64 + 4 * i in
      w.(i) <- (data.(o) lsl 24) lor (data.(o+1) lsl 16) lor (data.(o+2) lsl 8) lor data.(o+3)
    done;
    for i = 16 to 79 do w.(i) <- rotl (w.(i-3) lxor w.(i-8) lxor w.(i-14) lxor w.(i-16)) 1 done;
    let a = ref !h0 and b = ref !h1 and c = ref !h2 and d = ref !h3 and e = ref !h4 in
    for i = 0 to 79 do
      let f, k =
        if i < 20 then ((!b land !c) lor ((lnot !b) land m32 land !d), 0x5A827999)
        else if i < 40 then (!b lxor !c lxor !d, 0x6ED9EBA1)
        else if i < 60 then ((!b land !c) lor (!b land !d) lor (!c land !d), 0x8F1BBCDC)
        else (!b lxor !c lxor !d, 0xCA62C1D6) in
      let t = (rotl !a 5 + f + !e + k + w.(i)) land m32 in
      e := !d; d := !c; c := rotl !b 30; b := !a; a := t
    done;
    h0 := (!h0 + !a) land m32; h1 := (!h1 + !b) land m32; h2 := (!h2 + !c) land m32;
    h3 := (!h3 + !d) land m32; h4 := (!h4 + !e) land m32
  done;
  List.concat_map (fun h -> [(h lsr 24) land 255; (h lsr 16) land 255; (h lsr 8) land 255; h land 255])
    [!h0; !h1; !h2; !h3; !h4]

let uuid5 (ns : n list) (name : n list) : n list =
  let d = sha1 (List.map int_of_n ns @ List.map int_of_n name) in
  let d = List.filteri (fun i _ -> i < 16) d in
  List.mapi (fun i b -> byte_tab.(if i = 6 then (b land 0x0f) lor 0x50 else if i = 8 then (b land 0x3f) lor 0x80 else b)) d

(* ---------- value printing (copied from codec_driver.ml) ---------- *)
let string_of_intk = function
  | U8 -> "U8" | I8 -> "I8" | U16 -> "U16" | I16 -> "I16" | U32 -> "U32" | I32 -> "I32"
  | U64 -> "U64" | I64 -> "I64"
let string_of_keyk = function KStr -> "Str" | KUuid -> "Uuid" | KInt i -> string_of_intk i
let string_of_fixk = function
  | F32 -> "F32" | F64 -> "F64" | FUuid -> "Uuid" | FObjectId -> "ObjectId"
  | FServiceId -> "ServiceId" | FSender -> "Sender" | FReceiver -> "Receiver"
let key_text = function KeyZ z -> dec_of_z z | KeyB l -> "h" ^ hex_of_bytes l
let rec print_value (v : value) : string =
  match v with
  | VNone -> "n"
  | VSome x -> "s(" ^ print_value x ^ ")"
  | VBool b -> if b then "b1" else "b0"
  | VInt (i, z) -> "i" ^ string_of_intk i ^ ":" ^ dec_of_z z
  | VFixed (f, bs) -> "x" ^ string_of_fixk f ^ ":" ^ hex_of_bytes bs
  | VString s -> "t:" ^ hex_of_bytes s
  | VBytes s -> "y:" ^ hex_of_bytes s
  | VVec l -> "v[" ^ String.concat "," (List.map print_value l) ^ "]"
  | VMap (k, l) ->
      let es = List.map (fun (ky, x) -> (key_text ky, x)) l in
      let es = List.sort (fun (a, _) (b, _) -> compare a b) es in
      "m" ^ string_of_keyk k ^ "{" ^ String.concat "," (List.map (fun (a, x) -> a ^ "=" ^ print_value x) es) ^ "}"
  | VSet (k, l) ->
      let es = List.sort compare (List.map key_text l) in
      "e" ^ string_of_keyk k ^ "{" ^ String.concat "," es ^ "}"
  | VStruct l ->
      let es = List.map (fun (id, x) -> (dec_of_n id, x)) l in
      let es = List.sort (fun (a, _) (b, _) -> compare a b) es in
      "r{" ^ String.concat "," (List.map (fun (a, x) -> a ^ "=" ^ print_value x) es) ^ "}"
  | VEnum (id, x) -> "u" ^ dec_of_n id ^ "(" ^ print_value x ^ ")"

let err_text = function
  | Eoi -> "!Eoi" | Invalid -> "!Invalid" | UnexpectedValue -> "!UnexpectedValue"
  | TooDeep -> "!TooDeep" | TrailingData -> "!TrailingData"
  | MoreElementsRemain -> "!MoreElementsRemain" | NoMoreElements -> "!NoMoreElements"
  | Overflow -> "!Overflow" | InvalidVersion -> "!InvalidVersion" | Fuel -> "!FUEL"
let res f = function Ok a -> f a | Err e -> err_text e

(* ---------- universe text ---------- *)
let prim_of_string = function
  | "Bool" -> PBool | "U8" -> PU8 | "I8" -> PI8 | "U16" -> PU16 | "I16" -> PI16 | "U32" -> PU32
  | "I32" -> PI32 | "U64" -> PU64 | "I64" -> PI64 | "F32" -> PF32 | "F64" -> PF64
  | "String" -> PString | "Uuid" -> PUuid | "ObjectId" -> PObjectId | "ServiceId" -> PServiceId
  | "Value" -> PValue | "Bytes" -> PBytes | "Lifetime" -> PLifetime | "Unit" -> PUnit
  | s -> failwith ("prim " ^ s)
let wrap_of_string = function
  | "Option" -> WOption | "Box" -> WBox | "Vec" -> WVec | "Set" -> WSet | "Sender" -> WSender
  | "Receiver" -> WReceiver | s -> failwith ("wrap " ^ s)

let parse_universe (toks : string list) : node list =
  let rest = ref toks in
  let next () = match !rest with [] -> failwith "eol" | t :: r -> rest := r; t in
  let int () = int_of_string (next ()) in
  let num () = n_of_int (int ()) in
  let str_tok t = if String.length t = 0 || t.[0] <> 'x' then failwith ("str " ^ t) else bytes_of_hex (String.sub t 1 (String.length t - 1)) in
  let str () = str_tok (next ()) in
  let doc () = let t = next () in if t = "-" then None else Some (str_tok t) in
  let rec lex_tok t =
    match t with
    | "p" -> XPrim (prim_of_string (next ()))
    | "w" -> let w = wrap_of_string (next ()) in XWrap (w, lex ())
    | "m" -> let k = lex () in let v = lex () in XMap (k, v)
    | "r" -> let a = lex () in let e = lex () in XResult (a, e)
    | "a" -> let t = lex () in let n = num () in XArray (t, n)
    | "c" -> let s = str () in let n = str () in let k = int () in
             let args = List.init k (fun _ -> ()) |> List.map (fun () -> lex ()) in XCustom (s, n, args)
    | "s" -> let s = str () in let n = str () in XService (s, n)
    | "u" -> XRaw (bytes_of_hex (next ()))
    | t -> failwith ("lex " ^ t)
  and lex () = lex_tok (next ()) in
  let olex () = let t = next () in if t = "-" then None else Some (lex_tok t) in
  let ofb () = let t = next () in if t = "-" then None else if t = "f" then
      (let n = str () in let d = doc () in Some { fb_name = n; fb_doc = d }) else failwith ("fb " ^ t) in
  let seq f = let k = int () in List.map (fun () -> f ()) (List.init k (fun _ -> ())) in
  let layout () =
    match next () with
    | "B" -> (match next () with
        | "p" -> LBuiltIn (BPrim (prim_of_string (next ())))
        | "w" -> let w = wrap_of_string (next ()) in LBuiltIn (BWrap (w, lex ()))
        | "m" -> let k = lex () in let v = lex () in LBuiltIn (BMap (k, v))
        | "r" -> let a = lex () in let e = lex () in LBuiltIn (BResult (a, e))
        | "a" -> let t = lex () in let n = num () in LBuiltIn (BArray (t, n))
        | t -> failwith ("builtin " ^ t))
    | "S" -> let s = str () in let n = str () in let d = doc () in
        let fs = seq (fun () -> let id = num () in let nm = str () in let dd = doc () in
                       let r = next () = "1" in let t = lex () in
                       { f_id = id; f_name = nm; f_doc = dd; f_req = r; f_ty = t }) in
        let fb = ofb () in LStruct (build_struct s n d fs fb)
    | "E" -> let s = str () in let n = str () in let d = doc () in
        let vs = seq (fun () -> let id = num () in let nm = str () in let dd = doc () in let t = olex () in
                       { v_id = id; v_name = nm; v_doc = dd; v_ty = t }) in
        let fb = ofb () in LEnum (build_enum s n d vs fb)
    | "T" -> let s = str () in let n = str () in let d = doc () in let t = lex () in
        LNewtype { n_schema = s; n_name = n; n_doc = d; n_target = t }
    | "V" -> let s = str () in let n = str () in let d = doc () in
        let u = bytes_of_hex (next ()) in let ver = num () in
        let fs = seq (fun () -> let id = num () in let nm = str () in let dd = doc () in
                       let a = olex () in let o = olex () in let e = olex () in
                       { fn_id = id; fn_name = nm; fn_doc = dd; fn_args = a; fn_ok = o; fn_err = e }) in
        let es = seq (fun () -> let id = num () in let nm = str () in let dd = doc () in let t = olex () in
                       { ev_id = id; ev_name = nm; ev_doc = dd; ev_ty = t }) in
        let ffb = ofb () in let efb = ofb () in
        LService (build_service s n d u ver fs es ffb efb)
    | t -> failwith ("layout " ^ t) in
  let node () =
    (match next () with "N" -> () | t -> failwith ("node " ^ t));
    let lx = lex () in
    let l = layout () in
    let rs = seq (fun () -> nat_of_int (int ())) in
    { nd_layout = l; nd_lex = lx; nd_refs = rs } in
  let nodes = seq node in
  if !rest <> [] then failwith "trailing tokens";
  nodes

let fuel = nat_of_int 100000
let univ : node list ref = ref []

let run_line (line : string) : string =
  match String.split_on_char ' ' line with
  | "U" :: toks -> univ := parse_universe toks; "ok"
  | [op; i] ->
      let k = nat_of_int (int_of_string i) in
      (match op with
       | "lexid" -> hex_of_bytes (t_lexid uuid5 !univ k)
       | "canon" -> res hex_of_bytes (t_canon uuid5 !univ k)
       | "cbytes" -> res (fun b -> hex_of_bytes (layout_ns (t_lay uuid5 !univ k)) ^ " " ^ hex_of_bytes b)
                       (t_compute_bytes uuid5 !univ fuel k)
       | "tid" -> res hex_of_bytes (t_type_id uuid5 !univ fuel k)
       | "intro" -> res (function None -> "!PANIC" | Some r -> print_value (intro_value r)) (t_intro uuid5 !univ fuel k)
       | "rt" -> (match t_intro uuid5 !univ fuel k with
           | Err e -> err_text e
           | Ok None -> "!PANIC"
           | Ok (Some r) ->
               (match encode_intro r with
                | Err e -> err_text e
                | Ok bs -> (match decode_intro bs with
                    | Err e -> "decode " ^ err_text e
                    | Ok r' -> if r' = r then "ok " ^ string_of_int (List.length r.i_refs) else "differs")))
       | _ -> "!UnknownOp " ^ op)
  | _ -> "!UnknownOp " ^ line

let () =
  let ic = open_in Sys.argv.(1) in
  let oc = open_out Sys.argv.(2) in
  (try
    while true do
      let line = input_line ic in
      let out = try run_line line with Failure m -> "!DRIVER " ^ m | Stack_overflow -> "!DRIVER stack" | Not_found -> "!DRIVER notfound" in
      output_string oc out; output_char oc '\n'
    done
  with End_of_file -> ());
  close_in ic; close_out oc
