(* introdb_driver.ml — replays the traces written by harness/src/bin/introdb.rs through the
   extracted machine of coq/Broker/IntroDb.v (introdb_model.ml) and compares, step by step and per
   connection, the multiset of messages, the set of connections the broker closed, the two gauges
   (connections, introspection entries) and the exit flag.

   Two things the implementation draws from its environment are resolved here:
   * the provider `rand` picked: the model takes the drawn index as an input; the driver SEARCHES
     the (tiny) tree of choice lists, extending the list by one index whenever the model stops with
     NeedChoice, until the model's step produces exactly what the trace shows (the chosen provider
     is visible because it receives QueryIntrospection, or is closed when it was a dead task);
   * the serials of broker-made provider queries: the implementation hands them out in hash-map
     iteration order, the model in key order, so they are compared up to a bijection that is built
     as the serials appear (`QI serial t` received by the same connection for the same type) and
     applied to the serials clients send back in `RPL`.

   Monitors on the implementation alone: PANIC lines (the broker task panicked), MONITOR lines of
   the harness (query answered exactly once, nothing after Shutdown, idle shutdown completes),
   introspection entries left when no connection is left.

   Output format as broker_driver.ml: `OK <seed> steps=<n>` or
   `DIVERGE <seed> step=<k> what=<...> | ev=<event> | impl=<...> | model=<...>` followed by the
   event prefix (`  EV ...` lines) as the replay, and a final SUMMARY line. *)
open Introdb_model

let rec pos_of_int i = if i = 1 then XH else if i land 1 = 0 then XO (pos_of_int (i lsr 1)) else XI (pos_of_int (i lsr 1))
let n_of_int i = if i = 0 then N0 else Npos (pos_of_int i)
let rec int_of_pos = function XH -> 1 | XO p -> 2 * int_of_pos p | XI p -> 2 * int_of_pos p + 1
let int_of_n = function N0 -> 0 | Npos p -> int_of_pos p
let rec int_of_nat = function O -> 0 | S k -> 1 + int_of_nat k

let split_ws s = List.filter (fun x -> x <> "") (String.split_on_char ' ' s)

(* ---------- events ---------- *)
type pev = { ev : ievent; self : int option (* the connection that leaves by itself / is forced *) }

let parse_res r =
  if r = "none" then None
  else if String.length r > 5 && String.sub r 0 5 = "some:" then Some (n_of_int (int_of_string (String.sub r 5 (String.length r - 5))))
  else failwith ("result " ^ r)

(* impl serial -> model serial: an association list per candidate state (see below) *)
let model_serial_of_impl (i2m : (int * int) list) (s : int) : int =
  match List.assoc_opt s i2m with
  | Some m -> m
  | None -> 4000000000 + (s mod 100000000)   (* a serial neither side has in its map *)

let parse_event (i2m : (int * int) list) (line : string) : pev =
  let n x = n_of_int (int_of_string x) in
  match split_ws line with
  | ["NEW"; i; v] -> { ev = INew (n i, n v); self = None }
  | ["SHUT"; c] | ["SHUT"; c; "clean"] -> { ev = IConnShutdown (n c); self = Some (int_of_string c) }
  | ["SHUTC"; c] -> { ev = IShutdownConn (n c); self = Some (int_of_string c) }
  | ["DROP"; c] -> { ev = IDropTask (n c); self = None }
  | ["SHUTI"] -> { ev = IShutdownIdle; self = None }
  | ["MSG"; c; "REG"] -> { ev = IRegister (n c, Some []); self = None }
  | ["MSG"; c; "REG"; ts] ->
      let l = List.filter (fun x -> x <> "") (String.split_on_char ',' ts) in
      { ev = IRegister (n c, Some (List.map n l)); self = None }
  | ["MSG"; c; "REGBAD"] -> { ev = IRegister (n c, None); self = None }
  | ["MSG"; c; "QRY"; s; t] -> { ev = IQueryMsg (n c, n s, n t); self = None }
  | "MSG" :: c :: "RPL" :: s :: r :: _ ->
      { ev = IReplyMsg (n c, n_of_int (model_serial_of_impl i2m (int_of_string s)), parse_res r); self = None }
  | _ -> failwith ("event not understood: " ^ line)

(* ---------- outputs ---------- *)
(* canonical text with the serial of a provider query blanked; the serial pairs are checked apart *)
type cout = { dst : int; text : string; qi : (int * int) option (* serial, type *) }

let pr_res = function None -> "none" | Some p -> "some:" ^ string_of_int (int_of_n p)
let model_out (((c, m) : (n * imsg))) : cout =
  match m with
  | IQuery (s, t) -> { dst = int_of_n c; text = "QI # " ^ string_of_int (int_of_n t); qi = Some (int_of_n s, int_of_n t) }
  | IQueryReply (s, r) -> { dst = int_of_n c; text = Printf.sprintf "QIR %d %s" (int_of_n s) (pr_res r); qi = None }
  | IShutdown -> { dst = int_of_n c; text = "SHUTDOWN"; qi = None }

let impl_out (c : int) (t : string) : cout =
  match split_ws t with
  | ["QI"; s; ty] ->
      (match int_of_string_opt ty with
       | Some tyn -> { dst = c; text = "QI # " ^ ty; qi = Some (int_of_string s, tyn) }
       | None -> { dst = c; text = t; qi = None })
  | _ -> { dst = c; text = t; qi = None }

let show (l : cout list) (ser : cout -> string) =
  String.concat "; " (List.map (fun o ->
    match o.qi with
    | Some (s, t) -> Printf.sprintf "%d:QI %s %d" o.dst (ser o) t
    | None -> Printf.sprintf "%d:%s" o.dst o.text) l)
let show_plain l = show l (fun o -> match o.qi with Some (s, _) -> string_of_int s | None -> "")

(* ---------- one step: search for the choices that explain the trace ---------- *)
(* Which task-dropped connection a failed send removed is not visible in the trace (only how many
   connections the broker has left), so one trace can have several explanations that differ in the
   model state.  The driver therefore carries a SET of candidates (model state + serial bijection);
   a step keeps every candidate/choice-list pair whose model step shows exactly the observation.
   The history diverges when no candidate is left. *)
type cand = { st : istate; i2m : (int * int) list }
type attempt =
  | Match of cand
  | Differ of string * string * string   (* what, impl, model *)

let canon l = List.sort compare (List.map (fun o -> (o.dst, o.text)) l)
let max_cands = 400
let max_leaves_per_step = 400000

let () =
  let ic = open_in Sys.argv.(1) in
  let oc = open_out Sys.argv.(2) in
  let histories = ref 0 and steps_total = ref 0 and diverged = ref 0 and abandoned = ref 0 in
  let cur_seed = ref "" in
  let cands = ref [ { st = iinit; i2m = [] } ] in
  let dropped : (int, unit) Hashtbl.t = Hashtbl.create 8 in
  let evlog = ref [] in
  let dead = ref false in
  let cur_ev = ref None in
  let obs_outs = ref [] and obs_closed = ref [] and obs_stats = ref "" and obs_exit = ref "" in
  let steps = ref 0 in
  let leaves = ref 0 in
  let max_leaves = ref 0 and choice_steps = ref 0 and choices_total = ref 0 and max_cands_seen = ref 1 and multi_cand_steps = ref 0 in
  let report what ev impl model =
    incr diverged; dead := true;
    Printf.fprintf oc "DIVERGE %s step=%d what=%s | ev=%s | impl=%s | model=%s\n" !cur_seed !steps what ev impl model;
    List.iter (fun e -> Printf.fprintf oc "  EV %s\n" e) (List.rev !evlog) in
  (* compare one completed model step with the observation *)
  let judge (cd : cand) (p : pev) (st' : istate) (outs : (n * imsg) list) : attempt =
    let before = List.map int_of_n (idb_conn_ids cd.st) in
    let after = List.map int_of_n (idb_conn_ids st') in
    let removed = List.filter (fun c -> not (List.mem c after) && not (Hashtbl.mem dropped c)) before in
    let removed = (match p.self with Some c -> List.filter (fun x -> x <> c) removed | None -> removed) in
    let mouts = List.map model_out outs in
    let iouts = List.map (fun (c, t) -> impl_out c t) !obs_outs in
    if canon mouts <> canon iouts then
      Differ ("C09:outputs-differ", show_plain (List.sort compare iouts), show_plain (List.sort compare mouts))
    else begin
      (* provider queries: same (connection, type) on both sides; their serials must respect the bijection *)
      let key o = (o.dst, match o.qi with Some (_, t) -> t | None -> -1) in
      let mq = List.filter (fun o -> o.qi <> None) mouts and iq = List.filter (fun o -> o.qi <> None) iouts in
      let pairs = List.map (fun io ->
        let mo = List.find (fun m -> key m = key io) mq in
        (match io.qi, mo.qi with Some (a, _), Some (b, _) -> (a, b) | _ -> (0, 0))) iq in
      let dup l = List.length (List.sort_uniq compare l) <> List.length l in
      let bad = List.exists (fun (a, b) ->
        (match List.assoc_opt a cd.i2m with Some b' -> b' <> b | None -> false)
        || List.exists (fun (a', b') -> b' = b && a' <> a) cd.i2m) pairs
        || dup (List.map fst pairs) || dup (List.map snd pairs) || dup (List.map key iq) in
      if bad then
        Differ ("C09:provider-query-serials-inconsistent", show_plain (List.sort compare iouts), show_plain (List.sort compare mouts))
      else begin
        let ca = List.sort compare !obs_closed and cb = List.sort compare removed in
        if ca <> cb then
          Differ ("C09:closed-connections-differ", String.concat "," (List.map string_of_int ca),
                  String.concat "," (List.map string_of_int cb))
        else begin
          let ms = Printf.sprintf "%d %d" (int_of_nat (idb_num_conns st')) (int_of_nat (idb_num_entries st')) in
          if !obs_stats <> "-" && !obs_stats <> "" && !obs_stats <> ms then
            Differ ("C09:gauges-differ(connections,introspection-entries)", !obs_stats, ms)
          else begin
            let mex = if iexits st' then "1" else "0" in
            if !obs_exit <> mex then Differ ("C09:exit-flag-differs", !obs_exit, mex)
            else
              let fresh = List.filter (fun (a, _) -> not (List.mem_assoc a cd.i2m)) pairs in
              Match { st = st'; i2m = List.sort compare (fresh @ cd.i2m) }
          end
        end
      end
    end in
  (* depth-first search over choice lists: every complete step that matches is collected *)
  let rec search (cd : cand) (p : pev) (prefix : n list) (first_fail : attempt option ref) (acc : cand list ref) : unit =
    if !leaves > max_leaves_per_step then () else
    match istep cd.st p.ev prefix with
    | IDone (st', outs) ->
        incr leaves;
        (match judge cd p st' outs with
         | Match c -> if not (List.mem c !acc) then acc := c :: !acc
         | d -> if !first_fail = None then first_fail := Some d)
    | IFail _ ->
        incr leaves;
        if !first_fail = None then first_fail := Some (Differ ("DRIVER:model-fail", "-", "-"))
    | IPanic site ->
        incr leaves;
        if !first_fail = None then
          first_fail := Some (Differ (Printf.sprintf "C09:model-panic-site-%d(the-implementation-reached-a-state-the-model-calls-inconsistent)" (int_of_n site), "-", "-"))
    | IHalt (NeedChoice len) ->
        let k = int_of_nat len in
        for r = 0 to k - 1 do search cd p (prefix @ [n_of_int r]) first_fail acc done
    | IHalt NoSerial ->
        if !first_fail = None then first_fail := Some (Differ ("DRIVER:model-out-of-serials", "-", "-"))
    | IHalt NoFuel ->
        if !first_fail = None then first_fail := Some (Differ ("C09:model-work-loop-out-of-fuel", "-", "-")) in
  let finish_step () =
    match !cur_ev with
    | None -> ()
    | Some line when not !dead ->
        incr steps; incr steps_total;
        evlog := line :: !evlog;
        (try
          (match (parse_event [] line).ev with IDropTask c -> Hashtbl.replace dropped (int_of_n c) () | _ -> ());
          leaves := 0;
          let ff = ref None in
          let acc = ref [] in
          List.iter (fun cd -> search cd (parse_event cd.i2m line) [] ff acc) !cands;
          if !leaves > !max_leaves then max_leaves := !leaves;
          if !leaves > List.length !cands then (incr choice_steps; choices_total := !choices_total + !leaves);
          (match !acc with
           | [] ->
               if !leaves > max_leaves_per_step then begin
                 (* not a verdict: the search was cut off *)
                 incr abandoned; dead := true;
                 Printf.fprintf oc "ABANDONED %s step=%d (choice search cut off after %d leaves)\n" !cur_seed !steps !leaves
               end else
               (match !ff with
                | Some (Differ (what, impl, model)) -> report what line impl model
                | _ -> report "DRIVER:no-attempt" line "-" "-")
           | l ->
               let l = List.rev l in
               let n = List.length l in
               if n > !max_cands_seen then max_cands_seen := n;
               if n > 1 then incr multi_cand_steps;
               if n > max_cands then begin
                 incr abandoned; dead := true;
                 Printf.fprintf oc "ABANDONED %s step=%d (%d candidate explanations)\n" !cur_seed !steps n
               end else begin
                 cands := l;
                 (* on the implementation alone: no connection left but introspection entries left *)
                 (match split_ws !obs_stats with
                  | [c; i] when c = "0" && i <> "0" ->
                      report "C09:implementation-keeps-introspection-entries-with-no-connection-left" line !obs_stats "-"
                  | _ -> ())
               end)
        with Failure m -> report ("DRIVER:" ^ m) line "-" "-" | Not_found -> report "DRIVER:not-found" line "-" "-")
    | Some _ -> () in
  (try
    while true do
      let line = input_line ic in
      let len = String.length line in
      if len >= 5 && String.sub line 0 5 = "HIST " then begin
        cur_seed := String.sub line 5 (len - 5);
        cands := [ { st = iinit; i2m = [] } ]; Hashtbl.reset dropped;
        evlog := []; dead := false; steps := 0; incr histories
      end else if len >= 3 && String.sub line 0 3 = "EV " then begin
        cur_ev := Some (String.sub line 3 (len - 3)); obs_outs := []; obs_closed := []; obs_stats := ""; obs_exit := ""
      end else if len >= 4 && String.sub line 0 4 = "OUT " then begin
        let rest = String.sub line 4 (len - 4) in
        let i = String.index rest ' ' in
        obs_outs := (int_of_string (String.sub rest 0 i), String.sub rest (i + 1) (String.length rest - i - 1)) :: !obs_outs
      end else if len >= 7 && String.sub line 0 7 = "CLOSED " then
        obs_closed := int_of_string (String.sub line 7 (len - 7)) :: !obs_closed
      else if len >= 6 && String.sub line 0 6 = "STATS " then obs_stats := String.sub line 6 (len - 6)
      else if len >= 5 && String.sub line 0 5 = "EXIT " then obs_exit := String.sub line 5 (len - 5)
      else if line = "END" then (finish_step (); cur_ev := None)
      else if len >= 4 && String.sub line 0 4 = "EVP " then begin
        cur_ev := Some (String.sub line 4 (len - 4));
        if not !dead then evlog := String.sub line 4 (len - 4) :: !evlog
      end else if len >= 6 && String.sub line 0 6 = "PANIC " then begin
        if not !dead then begin
          let e = (match !cur_ev with Some e -> e | None -> (match !evlog with e :: _ -> e | [] -> "-")) in
          incr steps;
          report "C09:implementation-panic(broker-task)" e line "-";
          cur_ev := None
        end
      end else if len >= 8 && String.sub line 0 8 = "MONITOR " then begin
        if not !dead then begin
          let rest = String.sub line 8 (len - 8) in
          let i = (try String.index rest ' ' with Not_found -> String.length rest) in
          let cls = String.sub rest 0 i in
          let what = if i < String.length rest then String.sub rest (i + 1) (String.length rest - i - 1) else "" in
          report (cls ^ ":" ^ what) (match !evlog with e :: _ -> e | [] -> "-") line "-"
        end
      end else if len >= 13 && String.sub line 0 13 = "HARNESS-ERROR" then begin
        if not !dead then report "HARNESS" "-" line "-"
      end else if line = "HISTEND" then begin
        if not !dead then Printf.fprintf oc "OK %s steps=%d\n" !cur_seed !steps
      end
    done
  with End_of_file -> ());
  Printf.fprintf oc "SUMMARY histories=%d steps=%d diverged=%d abandoned=%d choice_steps=%d choice_leaves=%d max_leaves=%d multi_candidate_steps=%d max_candidates=%d\n"
    !histories !steps_total !diverged !abandoned !choice_steps !choices_total !max_leaves !multi_cand_steps !max_cands_seen;
  close_in ic; close_out oc
