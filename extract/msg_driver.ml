(* msg_driver.ml — runs the extracted message-codec model (msg_model.ml) on a cases file:
   one op per line, one result per line, same syntax as harness/src/bin/msg.rs.

   message text:  <kind> <fields> <value>
     fields: "-" (none) or items separated by ',':  u<dec> | i<32 hex digits> | t<disc>(<items>)
     value:  "-" (no payload) | "E" (SerializedValue::empty()) | hex of the payload
   ops:  ser <message>          -> hex of the frame | !InvalidValue | !Overflow | !IllTyped
         wf <message>           -> 1 | 0
         de <hex>               -> <message> | !Eoi | !Invalid | !UnexpectedMessage | !TrailingData
         deas <kind> <hex>      -> the same through <Kind>::deserialize_message *)
open Msg_model
(* note: Msg_model defines its own [string] (Coq strings of the descriptor names), so this file
   does not annotate OCaml strings *)

(* ---------- numbers: Coq positive/N <-> OCaml (as in codec_driver.ml) ---------- *)
let rec pos_of_int i = if i = 1 then XH else if i land 1 = 0 then XO (pos_of_int (i lsr 1)) else XI (pos_of_int (i lsr 1))
let n_of_int i = if i = 0 then N0 else Npos (pos_of_int i)
let rec int_of_pos = function XH -> 1 | XO p -> 2 * int_of_pos p | XI p -> 2 * int_of_pos p + 1
let int_of_n = function N0 -> 0 | Npos p -> int_of_pos p
(* all numbers of this driver are below 2^32, OCaml ints are 63-bit *)
let n_of_dec s : n = n_of_int (int_of_string s)
let dec_of_n (x : n) = string_of_int (int_of_n x)

(* ---------- bytes ---------- *)
let byte_tab = Array.init 256 n_of_int
let hexval c = match c with '0'..'9' -> Char.code c - 48 | 'a'..'f' -> Char.code c - 87 | 'A'..'F' -> Char.code c - 55 | _ -> failwith "hex"
let bytes_of_hex s : n list =
  let len = String.length s / 2 in
  let rec go i acc = if i < 0 then acc else go (i - 1) (byte_tab.(16 * hexval s.[2*i] + hexval s.[2*i+1]) :: acc) in
  go (len - 1) []
let hex_of_bytes (l : n list) =
  let b = Buffer.create 64 in
  List.iter (fun x -> Buffer.add_string b (Printf.sprintf "%02x" (int_of_n x))) l;
  Buffer.contents b

(* ---------- message text ---------- *)
let parse_fields s : fval list =
  if s = "-" then [] else begin
    let pos = ref 0 in
    let len = String.length s in
    let peek () = if !pos < len then s.[!pos] else '\000' in
    let token stop =
      let st = !pos in
      while !pos < len && not (String.contains stop s.[!pos]) do incr pos done;
      String.sub s st (!pos - st) in
    let rec items () =
      let rec go acc =
        let v = item () in
        if peek () = ',' then (incr pos; go (v :: acc)) else List.rev (v :: acc) in
      if peek () = ')' || !pos >= len then [] else go []
    and item () =
      match peek () with
      | 'u' -> incr pos; VU32 (n_of_dec (token ",)"))
      | 'i' -> incr pos; VId (bytes_of_hex (token ",)"))
      | 't' -> incr pos; let d = n_of_dec (token "(") in
          if peek () <> '(' then failwith "expected (";
          incr pos; let vs = items () in
          if peek () <> ')' then failwith "expected )";
          incr pos; VTag (d, vs)
      | c -> failwith (Printf.sprintf "unexpected %c at %d" c !pos) in
    let vs = items () in
    if !pos <> len then failwith "trailing text in fields"; vs
  end

let rec print_fval = function
  | VU32 x -> "u" ^ dec_of_n x
  | VId u -> "i" ^ hex_of_bytes u
  | VTag (d, vs) -> "t" ^ dec_of_n d ^ "(" ^ String.concat "," (List.map print_fval vs) ^ ")"
let print_fields = function [] -> "-" | vs -> String.concat "," (List.map print_fval vs)

let parse_msg_text s : msg =
  match String.split_on_char ' ' s with
  | [k; fs; v] ->
      { mkind = n_of_dec k; mfields = parse_fields fs;
        mvalue = (if v = "-" then None else if v = "E" then Some [] else Some (bytes_of_hex v)) }
  | _ -> failwith "message text"

let print_msg (m : msg) =
  dec_of_n m.mkind ^ " " ^ print_fields m.mfields ^ " " ^
  (match m.mvalue with None -> "-" | Some [] -> "E" | Some v -> hex_of_bytes v)

let ser_err = function
  | Invalid -> "!InvalidValue" | Overflow -> "!Overflow" | MoreElementsRemain -> "!IllTyped"
  | _ -> "!DRIVER unexpected serialize error"
let de_err = function
  | Eoi -> "!Eoi" | Invalid -> "!Invalid" | UnexpectedValue -> "!UnexpectedMessage"
  | TrailingData -> "!TrailingData" | MoreElementsRemain -> "!IllTyped"
  | _ -> "!DRIVER unexpected deserialize error"

let run_line line =
  let sp = String.index_opt line ' ' in
  let op, arg = match sp with
    | None -> line, ""
    | Some i -> String.sub line 0 i, String.sub line (i + 1) (String.length line - i - 1) in
  match op with
  | "ser" -> (match ser_msg (parse_msg_text arg) with Ok f -> hex_of_bytes f | Err e -> ser_err e)
  | "wf" -> if wf_msg (parse_msg_text arg) then "1" else "0"
  | "de" -> (match parse_msg (bytes_of_hex arg) with Ok m -> print_msg m | Err e -> de_err e)
  | "deas" ->
      (match String.split_on_char ' ' arg with
       | [k; h] -> (match parse_as (n_of_dec k) (bytes_of_hex h) with Ok m -> print_msg m | Err e -> de_err e)
       | _ -> "!DRIVER bad deas line")
  | _ -> "!UnknownOp " ^ op

let () =
  let ic = open_in Sys.argv.(1) in
  let oc = open_out Sys.argv.(2) in
  (try
    while true do
      let line = input_line ic in
      let out = try run_line line with Failure m -> "!DRIVER " ^ m | Stack_overflow -> "!DRIVER stack" in
      output_string oc out; output_char oc '\n'
    done
  with End_of_file -> ());
  close_in ic; close_out oc
