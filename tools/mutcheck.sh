#!/bin/bash
# tools/mutcheck.sh <patch-file> <PROP> [<PROP>...]
# Run the given checks against a MUTATED copy of /repo without touching /repo or /verif:
# a scratch git worktree of /repo gets the patch, a scratch copy of /verif (with its build
# products) gets its repo-link pointed at the worktree.  Everything is removed afterwards.
set -u
PATCH=$(readlink -f "$1"); shift
ID=$(basename "$(dirname "$PATCH")")-$$
WT=/tmp/mutwt-$ID
VC=/tmp/mutverif-$ID
git -C /repo worktree add -q --detach "$WT" HEAD || exit 3
if ! git -C "$WT" apply "$PATCH"; then echo "PATCH DOES NOT APPLY"; git -C /repo worktree remove --force "$WT"; exit 3; fi
mkdir -p "$VC"
rsync -a --exclude .git --exclude work --exclude 'evidence/replays' /verif/ "$VC"/
ln -sfn "$WT" "$VC/repo-link"
rc=0
for P in "$@"; do
  echo "=== $P against $(basename $PATCH)"
  ( cd "$VC" && VERIF_REPO="$WT" timeout 1800 ./check "$P" --tier quick 2>&1 | grep -E "VIOLATION|KNOWN-FINDING|\] ok|BROKEN" | cut -c1-400 )
done
git -C /repo worktree remove --force "$WT"
rm -rf "$VC"
