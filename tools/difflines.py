#!/usr/bin/env python3
"""difflines.py cases impl model — report lines where implementation and model differ"""
import sys
def main():
    c=open(sys.argv[1]).read().split('\n'); a=open(sys.argv[2]).read().split('\n'); b=open(sys.argv[3]).read().split('\n')
    print(len(c),len(a),len(b))
    bad=0
    for i,(x,y) in enumerate(zip(a,b)):
        if x!=y and x!='-':
            bad+=1
            if bad<6: print(i,c[i][:200],'\n IMPL',x[:200],'\n MODL',y[:200])
    print('bad',bad)
main()
