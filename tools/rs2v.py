#!/usr/bin/env python3
"""rs2v.py — the translator for the table-like parts of /repo (DESIGN §1.2).

A deliberately small scanner (regular expressions + brace matching), not a Rust parser.  It
regenerates coq/gen/*.v from the *current working tree* of /repo on every check run.  Anything
it cannot read in the shape it expects is a loud failure (a broken tie), never a silent default.
Files are rewritten only when their content changes, so unchanged sources do not trigger a
rebuild of the Coq development.
"""
import os
import re
import sys

REPO = os.environ.get("VERIF_REPO", "/repo")
OUT = os.path.join(os.path.dirname(os.path.abspath(__file__)), "..", "coq", "gen")


class TieError(Exception):
    pass


def read(rel):
    p = os.path.join(REPO, rel)
    try:
        with open(p, encoding="utf-8") as f:
            return f.read()
    except OSError as e:
        raise TieError(f"cannot read {rel}: {e}")


def strip_comments(src):
    src = re.sub(r"//[^\n]*", "", src)
    return re.sub(r"/\*.*?\*/", "", src, flags=re.S)


def match_brace(src, i):
    """src[i] == '{' -> index just after the matching '}'"""
    assert src[i] == "{"
    d = 0
    j = i
    while j < len(src):
        c = src[j]
        if c == "{":
            d += 1
        elif c == "}":
            d -= 1
            if d == 0:
                return j + 1
        elif c == '"':
            j += 1
            while src[j] != '"':
                if src[j] == "\\":
                    j += 1
                j += 1
        j += 1
    raise TieError("unbalanced braces")


def const_int(src, name, rel):
    m = re.search(r"\bconst\s+" + re.escape(name) + r"\s*:\s*\w+\s*=\s*([^;]+);", src)
    if not m:
        raise TieError(f"{rel}: const {name} not found")
    return eval_int(m.group(1), rel)


PRIM_SIZES = {"u8": 1, "i8": 1, "u16": 2, "i16": 2, "u32": 4, "i32": 4, "u64": 8, "i64": 8,
              "usize": 8, "isize": 8}


def eval_int(expr, rel, self_size=None):
    e = expr.strip().replace("_", "")
    e = re.sub(r"\s+", " ", e)
    m = re.fullmatch(r"(0x[0-9a-fA-F]+|\d+)(?:[ui](?:8|16|32|64|size))?", e)
    if m:
        return int(m.group(1), 0)
    m = re.fullmatch(r"(?:std::)?(?:mem::)?sizeof::<(\w+)>\(\)", e.replace("size_of", "sizeof"))
    if m:
        t = m.group(1)
        if t in PRIM_SIZES:
            return PRIM_SIZES[t]
        if t == "Self" and self_size is not None:
            return self_size
        raise TieError(f"{rel}: cannot evaluate size_of::<{t}>()")
    m = re.fullmatch(r"(.+) \* (.+)", e)
    if m:
        return eval_int(m.group(1), rel, self_size) * eval_int(m.group(2), rel, self_size)
    m = re.fullmatch(r"(.+) \+ (.+)", e)
    if m:
        return eval_int(m.group(1), rel, self_size) + eval_int(m.group(2), rel, self_size)
    raise TieError(f"{rel}: cannot evaluate integer expression `{expr.strip()}`")


def repr_enum(src, name, rel):
    """[(variant, discriminant)] of `enum name { A = 0, ... }` (explicit discriminants only)"""
    m = re.search(r"\benum\s+" + re.escape(name) + r"\s*\{", src)
    if not m:
        raise TieError(f"{rel}: enum {name} not found")
    end = match_brace(src, m.end() - 1)
    body = strip_comments(src[m.end():end - 1])
    out = []
    for item in body.split(","):
        item = re.sub(r"#\[[^\]]*\]", "", item).strip()
        if not item:
            continue
        mm = re.fullmatch(r"(\w+)\s*=\s*(\d+)", item)
        if not mm:
            raise TieError(f"{rel}: enum {name}: unexpected variant `{item}`")
        out.append((mm.group(1), int(mm.group(2))))
    return out


def zst_size(tags_src, name):
    """size of a tag type: `pub struct Name(());` is zero-sized"""
    m = re.search(r"\bstruct\s+" + re.escape(name) + r"\s*(\([^;]*\))?\s*;", tags_src)
    if not m:
        raise TieError(f"core/src/tags.rs: struct {name} not found")
    fields = (m.group(1) or "()").strip()
    if fields in ("()", "(())"):
        return 0
    mm = re.fullmatch(r"\(\s*(?:pub\s+)?(\w+)\s*\)", fields)
    if mm and mm.group(1) in PRIM_SIZES:
        return PRIM_SIZES[mm.group(1)]
    raise TieError(f"core/src/tags.rs: cannot size struct {name}{fields}")


def key_skip_widths():
    """the const generic each varint `KeyTagImpl::skip` passes to try_skip_varint_le"""
    rel = "core/src/tags/key_impl.rs"
    src = strip_comments(read(rel))
    tags = strip_comments(read("core/src/tags.rs"))
    out = {}
    for ty in ("U16", "I16", "U32", "I32", "U64", "I64"):
        m = re.search(r"impl\s+KeyTagImpl\s+for\s+" + ty + r"\s*\{", src)
        if not m:
            raise TieError(f"{rel}: impl KeyTagImpl for {ty} not found")
        body = src[m.end():match_brace(src, m.end() - 1)]
        f = re.search(r"fn\s+skip\s*<[^>]*>\s*\([^)]*\)\s*->\s*[^{]+\{", body)
        if not f:
            raise TieError(f"{rel}: {ty}::skip not found")
        fbody = body[f.end():match_brace(body, f.end() - 1) - 1].strip()
        mm = re.fullmatch(r"buf\s*\.\s*try_skip_varint_le\s*::\s*<\s*(.+?)\s*>\s*\(\s*\)", fbody, flags=re.S)
        if not mm:
            raise TieError(f"{rel}: {ty}::skip has an unexpected body: `{fbody}`")
        gen = mm.group(1).strip()
        if gen.startswith("{") and gen.endswith("}"):
            gen = gen[1:-1]
        out[ty] = eval_int(gen, rel, self_size=zst_size(tags, ty))
    return out


def coq_str(s):
    return '"' + s.replace('"', '""') + '"'


def gen_consts():
    lib = read("core/src/lib.rs")
    lines = ["(* generated by tools/rs2v.py from /repo — do not edit *)",
             "From Coq Require Import NArith List.", "Import ListNotations.", ""]
    lines.append(f"Definition MAX_VALUE_DEPTH : nat := {const_int(lib, 'MAX_VALUE_DEPTH', 'core/src/lib.rs')}.")
    for ty, w in key_skip_widths().items():
        lines.append(f"Definition KEY_SKIP_WIDTH_{ty} : nat := {w}.")
    return "\n".join(lines) + "\n"


def gen_kinds():
    vk = repr_enum(read("core/src/value_kind.rs"), "ValueKind", "core/src/value_kind.rs")
    lines = ["(* generated by tools/rs2v.py from /repo — do not edit *)",
             "From Coq Require Import NArith List String.", "Import ListNotations.",
             "Open Scope string_scope.", "Open Scope N_scope.", ""]
    lines.append("Definition value_kind_table : list (string * N) := [")
    lines.append(";\n".join(f"  ({coq_str(n)}, {d})" for n, d in vk))
    lines.append("].")
    return "\n".join(lines) + "\n"


def protocol_versions():
    """{name: (major, minor)} of `pub const V1_xx: Self = Self::new(a, b);` in protocol_version.rs;
    also checks that ProtocolVersion orders lexicographically by (major, minor): derived
    PartialOrd/Ord over the fields in that order"""
    rel = "core/src/protocol_version.rs"
    src = strip_comments(read(rel))
    m = re.search(r"((?:#\[[^\]]*\]\s*)+)pub\s+struct\s+ProtocolVersion\s*\{([^}]*)\}", src)
    if not m:
        raise TieError(f"{rel}: struct ProtocolVersion not found")
    attrs, body = m.group(1), m.group(2)
    derives = ",".join(re.findall(r"#\[derive\(([^)]*)\)\]", attrs))
    names = [d.strip() for d in derives.split(",")]
    if "PartialOrd" not in names or "Ord" not in names:
        raise TieError(f"{rel}: ProtocolVersion does not derive PartialOrd/Ord (ordering is no longer lexicographic by derive)")
    fields = [f.strip().split(":")[0].replace("pub", "").strip() for f in body.split(",") if f.strip()]
    if fields != ["major", "minor"]:
        raise TieError(f"{rel}: ProtocolVersion fields are {fields}, expected [major, minor]")
    if re.search(r"impl\s+(?:PartialOrd|Ord)\s+for\s+ProtocolVersion", src):
        raise TieError(f"{rel}: hand-written ordering for ProtocolVersion")
    out = {}
    for mm in re.finditer(r"pub\s+const\s+(V\d+_\d+)\s*:\s*Self\s*=\s*Self::new\(\s*(\d+)\s*,\s*(\d+)\s*\)\s*;", src):
        out[mm.group(1)] = (int(mm.group(2)), int(mm.group(3)))
    if not out:
        raise TieError(f"{rel}: no ProtocolVersion::Vx_y constants found")
    return out


def gen_conv_consts():
    """the Epoch bounds of convert_value.rs (V1_MIN/V1_MAX/V2_MIN/V2_MAX in Epoch::try_from, MAX in
    convert) resolved through the ProtocolVersion::V1_xx constants, plus shape checks of the two
    comparisons the model transcribes"""
    rel = "core/src/convert_value.rs"
    src = strip_comments(read(rel))
    vers = protocol_versions()

    def fn_body(pattern, what):
        m = re.search(pattern, src)
        if not m:
            raise TieError(f"{rel}: {what} not found")
        i = src.index("{", m.end() - 1)
        return src[i:match_brace(src, i)]

    def bound(body, name, what):
        m = re.search(r"\bconst\s+" + name + r"\s*:\s*ProtocolVersion\s*=\s*ProtocolVersion::(\w+)\s*;", body)
        if not m:
            raise TieError(f"{rel}: const {name} not found in {what}")
        if m.group(1) not in vers:
            raise TieError(f"{rel}: {name} = ProtocolVersion::{m.group(1)} is not a constant of protocol_version.rs")
        return vers[m.group(1)]

    m = re.search(r"impl\s+TryFrom<ProtocolVersion>\s+for\s+Epoch\s*\{", src)
    if not m:
        raise TieError(f"{rel}: impl TryFrom<ProtocolVersion> for Epoch not found")
    tf = src[m.end() - 1:match_brace(src, m.end() - 1)]
    flat = re.sub(r"\s+", " ", tf)
    shape = (r"if \(version >= V1_MIN\) && \(version <= V1_MAX\) \{ Ok\(Self::V1\) \} "
             r"else if \(version >= V2_MIN\) && \(version <= V2_MAX\) \{ Ok\(Self::V2\) \} "
             r"else \{ Err\(ValueConversionError::InvalidVersion\) \}")
    if not re.search(shape, flat):
        raise TieError(f"{rel}: Epoch::try_from no longer has the shape `V1_MIN <= v <= V1_MAX -> V1, V2_MIN <= v <= V2_MAX -> V2, else InvalidVersion`")
    ep = repr_plain_enum(src, "Epoch", rel)
    if ep != ["V1", "V2"]:
        raise TieError(f"{rel}: enum Epoch variants are {ep}, expected [V1, V2] (derived Ord: V1 < V2)")
    conv = fn_body(r"pub\(crate\)\s+fn\s+convert\s*\(", "fn convert")
    cflat = re.sub(r"\s+", " ", conv)
    if not re.search(r"let from = Epoch::try_from\(from\.unwrap_or\(MAX\)\)\?; let to = Epoch::try_from\(to\)\?; if to < from \{", cflat):
        raise TieError(f"{rel}: fn convert no longer starts with `from = Epoch(from.unwrap_or(MAX))?; to = Epoch(to)?; if to < from`")
    vals = [("CONV_V1_MIN", bound(tf, "V1_MIN", "Epoch::try_from")),
            ("CONV_V1_MAX", bound(tf, "V1_MAX", "Epoch::try_from")),
            ("CONV_V2_MIN", bound(tf, "V2_MIN", "Epoch::try_from")),
            ("CONV_V2_MAX", bound(tf, "V2_MAX", "Epoch::try_from")),
            ("CONV_MAX", bound(conv, "MAX", "fn convert"))]
    lines = ["(* generated by tools/rs2v.py from /repo — do not edit *)",
             "From Coq Require Import NArith.", "Open Scope N_scope.", "",
             "(* (major, minor); ProtocolVersion derives Ord over (major, minor): lexicographic *)"]
    for n, (a, b) in vals:
        lines.append(f"Definition {n} : N * N := ({a}, {b}).")
    return "\n".join(lines) + "\n"


def repr_plain_enum(src, name, rel):
    """variant names of a field-less enum without discriminants, in declaration order"""
    m = re.search(r"\benum\s+" + re.escape(name) + r"\s*\{", src)
    if not m:
        raise TieError(f"{rel}: enum {name} not found")
    end = match_brace(src, m.end() - 1)
    out = []
    for item in src[m.end():end - 1].split(","):
        item = re.sub(r"#\[[^\]]*\]", "", item).strip()
        if not item:
            continue
        if not re.fullmatch(r"\w+", item):
            raise TieError(f"{rel}: enum {name}: unexpected variant `{item}`")
        out.append(item)
    return out


GENERATORS = {"Consts.v": gen_consts, "Kinds.v": gen_kinds}
GENERATORS["ConvConsts.v"] = gen_conv_consts


# ---------------------------------------------------------------- C14: packetizer / stream transport

def fn_body(src, name, rel):
    """whitespace-free body of `fn name(...) ... { body }` (comments stripped by the caller)"""
    m = re.search(r"\bfn\s+" + re.escape(name) + r"\b", src)
    if not m:
        raise TieError(f"{rel}: fn {name} not found")
    i = src.find("{", m.end())
    if i < 0:
        raise TieError(f"{rel}: fn {name} has no body")
    return re.sub(r"\s+", "", src[i + 1:match_brace(src, i) - 1])


def const_resolved(src, name, rel, depth=0):
    """like const_int, but a right-hand side naming another const of the same file is followed"""
    m = re.search(r"\bconst\s+" + re.escape(name) + r"\s*:\s*\w+\s*=\s*([^;]+);", src)
    if not m:
        raise TieError(f"{rel}: const {name} not found")
    rhs = m.group(1).strip()
    if re.fullmatch(r"[A-Z][A-Z0-9_]*", rhs) and depth < 4:
        return const_resolved(src, rhs, rel, depth + 1)
    return eval_int(rhs, rel)


_PK_RES = ("ifself.buf.capacity()<len{letreserve=(len-self.buf.len())"
           ".clamp(MIN_RESERVE_CAPACITY,MAX_RESERVE_CAPACITY);self.buf.reserve(reserve);}")
_PK_FB = "ifself.buf.capacity()==self.buf.len(){self.buf.reserve(MIN_RESERVE_CAPACITY);}"
_PK_SHAPES = {
    # 0: as found at the pinned commit: the `capacity == len` fallback only when no length is cached
    "ifletSome(len)=self.len{" + _PK_RES + "}else" + _PK_FB: 0,
    # 1: the fallback runs after the `Some(len)` branch too (sequential `if`)
    "ifletSome(len)=self.len{" + _PK_RES + "}" + _PK_FB: 1,
    # 2: the fallback is an inner `else if` of the `Some(len)` branch and the outer `else if` stays
    "ifletSome(len)=self.len{" + _PK_RES + "else" + _PK_FB + "}else" + _PK_FB: 2,
}
_PK_TAIL = re.compile(r"letslice=self\.buf\.spare_capacity_mut\(\);(debug_assert!\(!slice\.is_empty\(\)\);)?slice")
_PK_NEXT = re.compile(
    r"ifself\.buf\.len\(\)<(\d+)\{returnNone;\}letlen=matchself\.len\{Some\(len\)=>len,None=>\{"
    r"letlen=\(&self\.buf\[\.\.(\d+)\]\)\.get_u32_le\(\)asusize;self\.len=Some\(len\);len\}\};"
    r"ifself\.buf\.len\(\)>=len\{letmutmsg=self\.buf\.split_to\(len\.max\((\d+)\)\);msg\.truncate\(len\);"
    r"self\.len=None;Some\(msg\)\}else\{None\}")

_TOKIO_BODIES = {
    "receive_poll":
        "letmutthis=self.project();loop{ifletSome(buf)=this.packetizer.next_message(){returnPoll::Ready("
        "Message::deserialize_message(buf).map_err(TokioTransportError::Deserialize),);}"
        "letmutread_buf=ReadBuf::uninit(this.packetizer.spare_capacity_mut());"
        "matchthis.io.as_mut().poll_read(cx,&mutread_buf){"
        "Poll::Ready(Ok(()))ifread_buf.filled().is_empty()=>{returnPoll::Ready(Err(TokioTransportError::Io("
        "IoErrorKind::UnexpectedEof.into(),)))}"
        "Poll::Ready(Ok(()))=>{letlen=read_buf.filled().len();unsafe{this.packetizer.bytes_written(len);}}"
        "Poll::Ready(Err(e))=>returnPoll::Ready(Err(TokioTransportError::Io(e))),"
        "Poll::Pending=>returnPoll::Pending,}}",
    "send_poll_ready":
        "ifself.write_buf.len()>=BACKPRESSURE_BOUNDARY{self.send_poll_flush(cx)}else{Poll::Ready(Ok(()))}",
    "send_start":
        "letthis=self.project();letmsg=msg.serialize_message().map_err(TokioTransportError::Serialize)?;"
        "ifthis.write_buf.is_empty(){*this.write_buf=msg;}else{this.write_buf.extend_from_slice(&msg);}Ok(())",
    "send_poll_flush":
        "letmutthis=self.project();while!this.write_buf.is_empty(){"
        "matchthis.io.as_mut().poll_write(cx,this.write_buf){"
        "Poll::Ready(Ok(0))=>{returnPoll::Ready(Err(TokioTransportError::Io(IoErrorKind::WriteZero.into(),)));}"
        "Poll::Ready(Ok(n))=>{this.write_buf.advance(n);}"
        "Poll::Ready(Err(e))=>returnPoll::Ready(Err(TokioTransportError::Io(e))),"
        "Poll::Pending=>returnPoll::Pending,}}"
        "this.io.poll_flush(cx).map_err(TokioTransportError::Io)",
}
_BUFFERED_BODIES = {
    "receive_poll": "self.project().inner.receive_poll(cx)",
    "send_poll_ready": "Poll::Ready(Ok(()))",
    "send_start": "self.project().buffer.push_back(msg);Ok(())",
    "send_poll_flush":
        "letmutthis=self.project();while!this.buffer.is_empty(){"
        "matchthis.inner.as_mut().send_poll_ready(cx){"
        "Poll::Ready(Ok(()))=>{letmsg=this.buffer.pop_front().unwrap();this.inner.as_mut().send_start(msg)?;}"
        "Poll::Ready(Err(e))=>returnPoll::Ready(Err(e)),Poll::Pending=>returnPoll::Pending,}}"
        "this.inner.as_mut().send_poll_flush(cx)",
}


def gen_stream_consts():
    """constants and control-flow shapes of the packetizer and the stream transports (C14).
    The bodies the Coq model transcribes are compared text-for-text (whitespace and comments
    removed); `spare_capacity_mut` may have one of three known shapes, reported as SPARE_SHAPE."""
    rel = "core/src/message/packetizer.rs"
    full = strip_comments(read(rel))
    t = full.find("#[cfg(test)]")
    src = full[:t] if t >= 0 else full
    lines = ["(* generated by tools/rs2v.py from /repo — do not edit *)",
             "From Coq Require Import NArith Bool.", "Open Scope N_scope.", ""]
    for c in ("MIN_RESERVE_CAPACITY", "MAX_RESERVE_CAPACITY"):
        lines.append(f"Definition {c} : N := {const_resolved(src, c, rel)}.")
    if fn_body(src, "new", rel) != "Self{buf:BytesMut::new(),len:None,}":
        raise TieError(f"{rel}: Packetizer::new has an unexpected body")
    if fn_body(src, "extend_from_slice", rel) != "self.buf.extend_from_slice(bytes.as_ref());":
        raise TieError(f"{rel}: extend_from_slice has an unexpected body")
    if fn_body(src, "bytes_written", rel) != "unsafe{self.buf.set_len(self.buf.len()+len);}":
        raise TieError(f"{rel}: bytes_written has an unexpected body")
    m = _PK_NEXT.fullmatch(fn_body(src, "next_message", rel))
    if not m:
        raise TieError(f"{rel}: next_message has an unexpected body")
    lines.append(f"Definition PK_HEADER_LEN : N := {int(m.group(1))}.   (* `self.buf.len() < _` *)")
    lines.append(f"Definition PK_HEADER_SLICE : N := {int(m.group(2))}. (* `&self.buf[.._]` read as u32 LE *)")
    lines.append(f"Definition PK_SPLIT_MIN : N := {int(m.group(3))}.    (* `split_to(len.max(_))` *)")
    body = fn_body(src, "spare_capacity_mut", rel)
    mt = _PK_TAIL.search(body)
    if not mt or mt.end() != len(body) or body[:mt.start()] not in _PK_SHAPES:
        raise TieError(f"{rel}: spare_capacity_mut has a shape the model does not know: `{body}`")
    lines.append(f"Definition SPARE_SHAPE : N := {_PK_SHAPES[body[:mt.start()]]}.")
    lines.append("Definition SPARE_DEBUG_ASSERT : bool := %s." % ("true" if mt.group(1) else "false"))
    rel = "core/src/tokio.rs"
    src = strip_comments(read(rel))
    for c in ("INITIAL_CAPACITY", "BACKPRESSURE_BOUNDARY"):
        lines.append(f"Definition {c} : N := {const_resolved(src, c, rel)}.")
    i = src.find("impl<T> AsyncTransport for TokioTransport<T>")
    if i < 0:
        raise TieError(f"{rel}: impl AsyncTransport for TokioTransport not found")
    for name, want in _TOKIO_BODIES.items():
        if fn_body(src[i:], name, rel) != want:
            raise TieError(f"{rel}: TokioTransport::{name} has an unexpected body")
    rel = "core/src/transport/buffered.rs"
    src = strip_comments(read(rel))
    i = src.find("AsyncTransport for Buffered<T>")
    if i < 0:
        raise TieError(f"{rel}: impl AsyncTransport for Buffered not found")
    for name, want in _BUFFERED_BODIES.items():
        if fn_body(src[i:], name, rel) != want:
            raise TieError(f"{rel}: Buffered::{name} has an unexpected body")
    return "\n".join(lines) + "\n"


GENERATORS["StreamConsts.v"] = gen_stream_consts


def gen_intro_consts():
    """C20: introspection field ids, namespaces, writer-call tables (tools/rs2v_intro.py)"""
    sys.path.insert(0, os.path.dirname(os.path.abspath(__file__)))
    import rs2v_intro
    return rs2v_intro.gen_intro_consts(sys.modules[__name__])


GENERATORS["IntroConsts.v"] = gen_intro_consts


# ---------------------------------------------------------------- C08: message codec (tools/rs2v_msg.py)

def _msg_generator(fn_name):
    """the message-codec scanner lives in rs2v_msg.py; it imports this file as module `rs2v`, whose
    TieError is a different class object when this file runs as __main__, hence the re-raise"""
    def run():
        sys.path.insert(0, os.path.dirname(os.path.abspath(__file__)))
        import rs2v_msg
        try:
            return getattr(rs2v_msg, fn_name)()
        except rs2v_msg.TieError as e:
            raise TieError(str(e))
    return run


GENERATORS["MsgKinds.v"] = _msg_generator("gen_msgkinds")
GENERATORS["MsgSig.v"] = _msg_generator("gen_msgsig")


# ---------------------------------------------------------------- broker model constants
sys.path.insert(0, os.path.dirname(os.path.abspath(__file__)))
import rs2v_broker  # noqa: E402

GENERATORS["BrokerConsts.v"] = lambda: rs2v_broker.gen_broker_consts(read, strip_comments, match_brace, const_int, TieError)

# ---------------------------------------------------------------- C12: handshake constants (tools/rs2v_accept.py)
import rs2v_accept  # noqa: E402

GENERATORS["AcceptConsts.v"] = lambda: rs2v_accept.gen_accept_consts(read, strip_comments, match_brace, protocol_versions, TieError)


# ---------------------------------------------------------------- C19: client-side folds (tools/rs2v_clientfold.py)
import rs2v_clientfold  # noqa: E402

GENERATORS["ClientFoldTie.v"] = lambda: rs2v_clientfold.gen_clientfold_tie(read, strip_comments, match_brace, TieError)


# ---------------------------------------------------------------- C15: client life cycle (tools/rs2v_clientlife.py)
import rs2v_clientlife  # noqa: E402

GENERATORS["ClientLifeSig.v"] = lambda: rs2v_clientlife.gen_clientlife_sig(read, strip_comments, match_brace, TieError)


# ---------------------------------------------------------------- C18/C17: schema grammar tokens (tools/rs2v_schema.py)

def gen_grammar_tokens():
    sys.path.insert(0, os.path.dirname(os.path.abspath(__file__)))
    import rs2v_schema
    return rs2v_schema.gen_grammar_tokens(sys.modules[__name__])


GENERATORS["GrammarTokens.v"] = gen_grammar_tokens


# ---------------------------------------------------------------- C06: client view (tools/rs2v_client.py)
import rs2v_client  # noqa: E402

GENERATORS["ClientConsts.v"] = lambda: rs2v_client.gen_client_consts(read, strip_comments, match_brace, TieError)


# ---------------------------------------------------------------- C16: derive contract (tools/rs2v_derive.py)
import rs2v_derive  # noqa: E402

GENERATORS["DeriveConsts.v"] = lambda: rs2v_derive.gen_derive_consts(read, strip_comments, match_brace, repr_enum, coq_str, TieError)


def main():
    os.makedirs(OUT, exist_ok=True)
    status = 0
    for name, fn in GENERATORS.items():
        path = os.path.join(OUT, name)
        try:
            text = fn()
        except TieError as e:
            print(f"rs2v: TIE BROKEN ({name}): {e}", file=sys.stderr)
            status = 2
            continue
        old = None
        if os.path.exists(path):
            with open(path, encoding="utf-8") as f:
                old = f.read()
        if old != text:
            with open(path, "w", encoding="utf-8") as f:
                f.write(text)
            print(f"rs2v: wrote {name}")
    return status


if __name__ == "__main__":
    sys.exit(main())
