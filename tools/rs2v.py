#!/usr/bin/env python3
"""rs2v.py — the translator for the table-like parts of /repo (DESIGN §1.2).

A deliberately small scanner (regular expressions + brace matching), not a Rust parser.  It
regenerates coq/gen/*.v from the *current working tree* of /repo on every check run.  Anything
it cannot read in the shape it expects is a loud failure (a broken tie), never a silent default.
Files are rewritten only when their content changes, so unchanged sources do not trigger a
rebuild of the Coq development.
"""
import os
import re
import sys

REPO = os.environ.get("VERIF_REPO", "/repo")
OUT = os.path.join(os.path.dirname(os.path.abspath(__file__)), "..", "coq", "gen")


class TieError(Exception):
    pass


def read(rel):
    p = os.path.join(REPO, rel)
    try:
        with open(p, encoding="utf-8") as f:
            return f.read()
    except OSError as e:
        raise TieError(f"cannot read {rel}: {e}")


def strip_comments(src):
    src = re.sub(r"//[^\n]*", "", src)
    return re.sub(r"/\*.*?\*/", "", src, flags=re.S)


def match_brace(src, i):
    """src[i] == '{' -> index just after the matching '}'"""
    assert src[i] == "{"
    d = 0
    j = i
    while j < len(src):
        c = src[j]
        if c == "{":
            d += 1
        elif c == "}":
            d -= 1
            if d == 0:
                return j + 1
        elif c == '"':
            j += 1
            while src[j] != '"':
                if src[j] == "\\":
                    j += 1
                j += 1
        j += 1
    raise TieError("unbalanced braces")


def const_int(src, name, rel):
    m = re.search(r"\bconst\s+" + re.escape(name) + r"\s*:\s*\w+\s*=\s*([^;]+);", src)
    if not m:
        raise TieError(f"{rel}: const {name} not found")
    return eval_int(m.group(1), rel)


PRIM_SIZES = {"u8": 1, "i8": 1, "u16": 2, "i16": 2, "u32": 4, "i32": 4, "u64": 8, "i64": 8,
              "usize": 8, "isize": 8}


def eval_int(expr, rel, self_size=None):
    e = expr.strip().replace("_", "")
    e = re.sub(r"\s+", " ", e)
    m = re.fullmatch(r"(0x[0-9a-fA-F]+|\d+)(?:[ui](?:8|16|32|64|size))?", e)
    if m:
        return int(m.group(1), 0)
    m = re.fullmatch(r"(?:std::)?(?:mem::)?sizeof::<(\w+)>\(\)", e.replace("size_of", "sizeof"))
    if m:
        t = m.group(1)
        if t in PRIM_SIZES:
            return PRIM_SIZES[t]
        if t == "Self" and self_size is not None:
            return self_size
        raise TieError(f"{rel}: cannot evaluate size_of::<{t}>()")
    m = re.fullmatch(r"(.+) \* (.+)", e)
    if m:
        return eval_int(m.group(1), rel, self_size) * eval_int(m.group(2), rel, self_size)
    m = re.fullmatch(r"(.+) \+ (.+)", e)
    if m:
        return eval_int(m.group(1), rel, self_size) + eval_int(m.group(2), rel, self_size)
    raise TieError(f"{rel}: cannot evaluate integer expression `{expr.strip()}`")


def repr_enum(src, name, rel):
    """[(variant, discriminant)] of `enum name { A = 0, ... }` (explicit discriminants only)"""
    m = re.search(r"\benum\s+" + re.escape(name) + r"\s*\{", src)
    if not m:
        raise TieError(f"{rel}: enum {name} not found")
    end = match_brace(src, m.end() - 1)
    body = strip_comments(src[m.end():end - 1])
    out = []
    for item in body.split(","):
        item = re.sub(r"#\[[^\]]*\]", "", item).strip()
        if not item:
            continue
        mm = re.fullmatch(r"(\w+)\s*=\s*(\d+)", item)
        if not mm:
            raise TieError(f"{rel}: enum {name}: unexpected variant `{item}`")
        out.append((mm.group(1), int(mm.group(2))))
    return out


def zst_size(tags_src, name):
    """size of a tag type: `pub struct Name(());` is zero-sized"""
    m = re.search(r"\bstruct\s+" + re.escape(name) + r"\s*(\([^;]*\))?\s*;", tags_src)
    if not m:
        raise TieError(f"core/src/tags.rs: struct {name} not found")
    fields = (m.group(1) or "()").strip()
    if fields in ("()", "(())"):
        return 0
    mm = re.fullmatch(r"\(\s*(?:pub\s+)?(\w+)\s*\)", fields)
    if mm and mm.group(1) in PRIM_SIZES:
        return PRIM_SIZES[mm.group(1)]
    raise TieError(f"core/src/tags.rs: cannot size struct {name}{fields}")


def key_skip_widths():
    """the const generic each varint `KeyTagImpl::skip` passes to try_skip_varint_le"""
    rel = "core/src/tags/key_impl.rs"
    src = strip_comments(read(rel))
    tags = strip_comments(read("core/src/tags.rs"))
    out = {}
    for ty in ("U16", "I16", "U32", "I32", "U64", "I64"):
        m = re.search(r"impl\s+KeyTagImpl\s+for\s+" + ty + r"\s*\{", src)
        if not m:
            raise TieError(f"{rel}: impl KeyTagImpl for {ty} not found")
        body = src[m.end():match_brace(src, m.end() - 1)]
        f = re.search(r"fn\s+skip\s*<[^>]*>\s*\([^)]*\)\s*->\s*[^{]+\{", body)
        if not f:
            raise TieError(f"{rel}: {ty}::skip not found")
        fbody = body[f.end():match_brace(body, f.end() - 1) - 1].strip()
        mm = re.fullmatch(r"buf\s*\.\s*try_skip_varint_le\s*::\s*<\s*(.+?)\s*>\s*\(\s*\)", fbody, flags=re.S)
        if not mm:
            raise TieError(f"{rel}: {ty}::skip has an unexpected body: `{fbody}`")
        gen = mm.group(1).strip()
        if gen.startswith("{") and gen.endswith("}"):
            gen = gen[1:-1]
        out[ty] = eval_int(gen, rel, self_size=zst_size(tags, ty))
    return out


def coq_str(s):
    return '"' + s.replace('"', '""') + '"'


def gen_consts():
    lib = read("core/src/lib.rs")
    lines = ["(* generated by tools/rs2v.py from /repo — do not edit *)",
             "From Coq Require Import NArith List.", "Import ListNotations.", ""]
    lines.append(f"Definition MAX_VALUE_DEPTH : nat := {const_int(lib, 'MAX_VALUE_DEPTH', 'core/src/lib.rs')}.")
    for ty, w in key_skip_widths().items():
        lines.append(f"Definition KEY_SKIP_WIDTH_{ty} : nat := {w}.")
    return "\n".join(lines) + "\n"


def gen_kinds():
    vk = repr_enum(read("core/src/value_kind.rs"), "ValueKind", "core/src/value_kind.rs")
    lines = ["(* generated by tools/rs2v.py from /repo — do not edit *)",
             "From Coq Require Import NArith List String.", "Import ListNotations.",
             "Open Scope string_scope.", "Open Scope N_scope.", ""]
    lines.append("Definition value_kind_table : list (string * N) := [")
    lines.append(";\n".join(f"  ({coq_str(n)}, {d})" for n, d in vk))
    lines.append("].")
    return "\n".join(lines) + "\n"


GENERATORS = {"Consts.v": gen_consts, "Kinds.v": gen_kinds}


def main():
    os.makedirs(OUT, exist_ok=True)
    status = 0
    for name, fn in GENERATORS.items():
        path = os.path.join(OUT, name)
        try:
            text = fn()
        except TieError as e:
            print(f"rs2v: TIE BROKEN ({name}): {e}", file=sys.stderr)
            status = 2
            continue
        old = None
        if os.path.exists(path):
            with open(path, encoding="utf-8") as f:
                old = f.read()
        if old != text:
            with open(path, "w", encoding="utf-8") as f:
                f.write(text)
            print(f"rs2v: wrote {name}")
    return status


if __name__ == "__main__":
    sys.exit(main())
