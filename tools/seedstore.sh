#!/bin/bash
# tools/seedstore.sh <ID> [suffix] : copy a verified seed from /tmp/seedwt/<ID>/seed into /verif/seeded/<ID>-<suffix>
ID=$1; SUF=${2:-a}
SRC=/tmp/seedwt/$ID/seed; DST=/verif/seeded/$ID-$SUF
[ -f $SRC/patch.diff ] || { echo "no patch in $SRC"; exit 2; }
mkdir -p $DST
rsync -a --exclude target --exclude '*.log' --exclude Cargo.lock $SRC/ $DST/
[ -f /tmp/seedwt/$ID.verify ] && cp /tmp/seedwt/$ID.verify $DST/verified-by-builder.txt
du -sh $DST
