#!/usr/bin/env python3
"""rs2v_msg.py — message-codec part of the translator (property C08, DESIGN §1.2 / §4 C08).

From core/src/message/*.rs (plus the helpers the message files call into: core/src/bus_listener.rs,
core/src/channel_end.rs, core/src/message.rs) it extracts

* `MessageKind` discriminants and the `has_value` table (kind.rs),
* every `#[repr(u8)]` enum used as a wire discriminant,
* per message kind, every *path* through `serialize_message` and through `deserialize_message`
  as the flat sequence of primitive calls on the MessageSerializer / Message*Deserializer
  (constructor, put_varint_u32_le, put_uuid, put_discriminant_u8(<resolved number>), finish, ...),
* the dispatch tables of `impl MessageOps for Message`.

A `match` is expanded into one path per arm; `put_discriminant_u8(self.field)` and
`let field = deserializer.try_get_discriminant_u8()?` are expanded over the variants of the
field's enum type; `serialize_into_message` / `deserialize_from_message` are inlined.  Paths are
sorted by the sequence of discriminants chosen, so the order of match arms in the source does not
matter.  Anything the scanner does not recognise raises TieError (a broken tie, never a default).

This module is imported by rs2v.py (which owns OUT/REPO/TieError helpers); it writes nothing itself.
"""
import os
import re

import rs2v as base
from rs2v import TieError, read, strip_comments, match_brace, repr_enum

MSG_DIR = "core/src/message"
SKIP = {"deserializer.rs", "serializer.rs", "kind.rs", "error.rs", "packetizer.rs", "test.rs"}
# files (besides the message file itself) in which discriminant enums / inlined helpers live
EXTRA = ["core/src/message.rs", "core/src/bus_listener.rs", "core/src/channel_end.rs"]

W_CTORS = {"without_value": "WWithout", "with_value": "WWith", "with_none_value": "WNone"}
R_CTORS = {"MessageWithoutValueDeserializer": "RWithout", "MessageWithValueDeserializer": "RWith"}
W_METHODS = {"put_varint_u32_le", "put_uuid", "put_discriminant_u8", "finish"}
R_METHODS = {"try_get_varint_u32_le", "try_get_uuid", "try_get_discriminant_u8", "finish",
             "finish_discard_value"}


def strip_tests(src):
    """drop `#[cfg(test)] mod x;` declarations and inline `#[cfg(test)] mod x { ... }` modules"""
    src = re.sub(r"#\[cfg\(test\)\]\s*mod\s+\w+\s*;", "", src)
    while True:
        m = re.search(r"#\[cfg\(test\)\]\s*mod\s+\w+\s*\{", src)
        if not m:
            break
        src = src[:m.start()] + src[match_brace(src, m.end() - 1):]
    if "#[cfg(test)]" in src:
        raise TieError("unsupported use of #[cfg(test)]")
    return src


def all_repr_u8_enums(src, rel):
    out = {}
    for m in re.finditer(r"#\[repr\(u8\)\]\s*(?:pub(?:\([a-z]+\))?\s+)?enum\s+(\w+)\s*\{", src):
        out[m.group(1)] = repr_enum(src, m.group(1), rel)
    return out


def find_fn(src, name, rel, required=True):
    ms = list(re.finditer(r"\bfn\s+" + re.escape(name) + r"\s*(?:<[^>]*>)?\s*\(", src))
    if not ms:
        if required:
            raise TieError(f"{rel}: fn {name} not found")
        return None
    if len(ms) > 1:
        raise TieError(f"{rel}: fn {name} defined {len(ms)} times")
    i = src.index("{", ms[0].end())
    return src[i + 1:match_brace(src, i) - 1]


def skip_string(src, j):
    """src[j] == '"' -> index of the closing quote"""
    j += 1
    while src[j] != '"':
        if src[j] == "\\":
            j += 1
        j += 1
    return j


def match_paren(src, i):
    assert src[i] == "("
    d = 0
    j = i
    while j < len(src):
        c = src[j]
        if c == "(":
            d += 1
        elif c == ")":
            d -= 1
            if d == 0:
                return j + 1
        elif c == '"':
            j = skip_string(src, j)
        j += 1
    raise TieError("unbalanced parentheses")


def split_arms(body, rel):
    """`pat => expr,` / `pat => { block }` list of a match body -> [(pattern, arm text)]"""
    arms = []
    i = 0
    n = len(body)
    while True:
        while i < n and body[i] in " \t\r\n,":
            i += 1
        if i >= n:
            break
        # pattern up to `=>` at nesting depth 0
        d = 0
        j = i
        while j < n:
            c = body[j]
            if c in "({[":
                d += 1
            elif c in ")}]":
                d -= 1
            elif c == "=" and d == 0 and body[j:j + 2] == "=>":
                break
            j += 1
        if j >= n:
            raise TieError(f"{rel}: match arm without `=>`: `{body[i:i + 60]}`")
        pat = body[i:j].strip()
        j += 2
        while j < n and body[j] in " \t\r\n":
            j += 1
        if j < n and body[j] == "{":
            e = match_brace(body, j)
            arms.append((pat, body[j + 1:e - 1]))
            i = e
        else:
            d = 0
            k = j
            while k < n:
                c = body[k]
                if c in "({[":
                    d += 1
                elif c in ")}]":
                    d -= 1
                elif c == '"':
                    k = skip_string(body, k)
                elif c == "," and d == 0:
                    break
                k += 1
            arms.append((pat, body[j:k]))
            i = k
    return arms


class Ctx:
    def __init__(self, rel, mode, enums, field_types, helpers):
        self.rel = rel
        self.mode = mode            # "w" or "r"
        self.enums = enums          # name -> [(variant, disc)]
        self.field_types = field_types
        self.helpers = helpers      # "serialize_into_message"/"deserialize_from_message" -> (rel, body, enums)
        self.kinds_named = []       # MessageKind::X named in constructors


def enum_disc(ctx, path):
    """`Enum::Variant` -> number"""
    m = re.fullmatch(r"(\w+)\s*::\s*(\w+)", path.strip())
    if not m:
        raise TieError(f"{ctx.rel}: cannot resolve discriminant expression `{path.strip()}`")
    en, var = m.group(1), m.group(2)
    if en not in ctx.enums:
        raise TieError(f"{ctx.rel}: `{en}` is not a known #[repr(u8)] enum")
    for v, d in ctx.enums[en]:
        if v == var:
            return d
    raise TieError(f"{ctx.rel}: enum {en} has no variant {var}")


def field_enum(ctx, field):
    ty = ctx.field_types.get(field)
    if ty is None:
        raise TieError(f"{ctx.rel}: cannot find the type of struct field `{field}`")
    if ty not in ctx.enums:
        raise TieError(f"{ctx.rel}: field `{field}: {ty}` is not a known #[repr(u8)] enum")
    return ctx.enums[ty]


# A parsed body is a list of nodes:
#   ("op", name)                      one primitive call
#   ("alt", [[node, ...], ...])       a choice (match arms / enum-valued discriminant)
TOKEN = re.compile(
    r"\bmatch\b"
    r"|\bMessageSerializer\s*::\s*(?P<wctor>\w+)\s*\("
    r"|\b(?P<rctor>MessageWith(?:out)?ValueDeserializer)\s*::\s*new\s*\("
    r"|\.\s*(?P<inl>serialize_into_message)\s*\("
    r"|\b\w+\s*::\s*(?P<inr>deserialize_from_message)\s*\("
    r"|\.\s*(?P<meth>put_varint_u32_le|put_uuid|put_discriminant_u8|try_get_varint_u32_le|try_get_uuid"
    r"|try_get_discriminant_u8|finish_discard_value|finish)\s*\("
    r"|\b(?:if|while|for|loop|return|unsafe)\b"
    r"|\b(?:de)?serializer\s*\.\s*(?!(?:put_varint_u32_le|put_uuid|put_discriminant_u8|try_get_varint_u32_le"
    r"|try_get_uuid|try_get_discriminant_u8|finish_discard_value|finish)\s*\()(?P<other>\w+)\s*\(")


def parse_nodes(ctx, text):
    nodes = []
    i = 0
    while True:
        m = TOKEN.search(text, i)
        if not m:
            break
        tok = m.group(0)
        if tok == "match":
            j = m.end()
            # scrutinee: up to the `{` at paren depth 0
            d = 0
            k = j
            while k < len(text):
                c = text[k]
                if c == "(":
                    d += 1
                elif c == ")":
                    d -= 1
                elif c == "{" and d == 0:
                    break
                k += 1
            if k >= len(text):
                raise TieError(f"{ctx.rel}: match without body")
            scrut = text[j:k]
            e = match_brace(text, k)
            arms = split_arms(text[k + 1:e - 1], ctx.rel)
            snodes = parse_nodes(ctx, scrut)
            on_disc = bool(snodes) and snodes[-1] == ("op", "GETDISC")
            if on_disc:
                snodes = snodes[:-1]
            if any(n[0] == "alt" or n == ("op", "GETDISC") for n in snodes):
                raise TieError(f"{ctx.rel}: unsupported match scrutinee `{scrut.strip()}`")
            nodes += snodes
            alts = []
            seen = set()
            for pat, body in arms:
                arm = parse_nodes(ctx, body)
                if on_disc:
                    if ctx.mode != "r":
                        raise TieError(f"{ctx.rel}: discriminant read in a writer")
                    if "|" in pat or pat.strip() == "_" or " if " in pat:
                        raise TieError(f"{ctx.rel}: unsupported discriminant arm pattern `{pat}`")
                    dsc = enum_disc(ctx, pat)
                    en = re.fullmatch(r"(\w+)\s*::\s*\w+", pat.strip()).group(1)
                    seen.add((en, dsc))
                    arm = [("op", f"RDisc {dsc}")] + arm
                alts.append(arm)
            if on_disc:
                ens = {e_ for e_, _ in seen}
                if len(ens) != 1:
                    raise TieError(f"{ctx.rel}: discriminant match mixes enums {sorted(ens)}")
                en = ens.pop()
                want = {d_ for _, d_ in ctx.enums[en]}
                got = {d_ for _, d_ in seen}
                if want != got or len(arms) != len(want):
                    raise TieError(f"{ctx.rel}: match on {en} does not cover each variant exactly once")
            nodes.append(("alt", alts))
            i = e
            continue
        if m.group("wctor"):
            name = m.group("wctor")
            if ctx.mode != "w" or name not in W_CTORS:
                raise TieError(f"{ctx.rel}: unexpected MessageSerializer::{name}")
            e = match_paren(text, m.end() - 1)
            km = re.search(r"MessageKind\s*::\s*(\w+)", text[m.end():e])
            if not km:
                raise TieError(f"{ctx.rel}: MessageSerializer::{name} without a MessageKind argument")
            ctx.kinds_named.append(km.group(1))
            nodes.append(("op", W_CTORS[name]))
            i = e
            continue
        if m.group("rctor"):
            if ctx.mode != "r":
                raise TieError(f"{ctx.rel}: unexpected {m.group('rctor')}::new in a writer")
            e = match_paren(text, m.end() - 1)
            km = re.search(r"MessageKind\s*::\s*(\w+)", text[m.end():e])
            if not km:
                raise TieError(f"{ctx.rel}: {m.group('rctor')}::new without a MessageKind argument")
            ctx.kinds_named.append(km.group(1))
            nodes.append(("op", R_CTORS[m.group("rctor")]))
            i = e
            continue
        if m.group("inl") or m.group("inr"):
            name = m.group("inl") or m.group("inr")
            if (ctx.mode == "w") != (name == "serialize_into_message"):
                raise TieError(f"{ctx.rel}: {name} used in the wrong direction")
            if name not in ctx.helpers:
                raise TieError(f"{ctx.rel}: helper {name} not found")
            hrel, hbody, henums = ctx.helpers[name]
            sub = Ctx(hrel, ctx.mode, dict(ctx.enums, **henums), {}, {})
            nodes += parse_nodes(sub, hbody)
            i = match_paren(text, m.end() - 1)
            continue
        if m.group("meth"):
            name = m.group("meth")
            e = match_paren(text, m.end() - 1)
            arg = text[m.end():e - 1].strip()
            if ctx.mode == "w":
                if name not in W_METHODS:
                    raise TieError(f"{ctx.rel}: reader call {name} in a writer")
                if name == "put_varint_u32_le":
                    nodes.append(("op", "WU32"))
                elif name == "put_uuid":
                    nodes.append(("op", "WUuid"))
                elif name == "finish":
                    if arg:
                        raise TieError(f"{ctx.rel}: finish with arguments")
                    nodes.append(("op", "WFinish"))
                else:
                    fm = re.fullmatch(r"self\s*\.\s*(\w+)", arg)
                    if fm:
                        nodes.append(("alt", [[("op", f"WDisc {d}")] for _, d in field_enum(ctx, fm.group(1))]))
                    else:
                        nodes.append(("op", f"WDisc {enum_disc(ctx, arg)}"))
            else:
                if name not in R_METHODS:
                    raise TieError(f"{ctx.rel}: writer call {name} in a reader")
                if arg:
                    raise TieError(f"{ctx.rel}: {name} with arguments")
                if name == "try_get_varint_u32_le":
                    nodes.append(("op", "RU32"))
                elif name == "try_get_uuid":
                    nodes.append(("op", "RUuid"))
                elif name == "finish":
                    nodes.append(("op", "RFinish"))
                elif name == "finish_discard_value":
                    nodes.append(("op", "RFinishDiscard"))
                else:
                    # either the scrutinee of a match (handled by the caller) or `let x = ...?;`
                    before = text[:m.start()]
                    lm = re.search(r"\blet\s+(\w+)\s*=\s*deserializer\s*$", before)
                    after = text[e:e + 8].lstrip()
                    if lm and after.startswith("?;"):
                        nodes.append(("alt", [[("op", f"RDisc {d}")] for _, d in field_enum(ctx, lm.group(1))]))
                    else:
                        nodes.append(("op", "GETDISC"))
            i = e
            continue
        if m.group("other"):
            raise TieError(f"{ctx.rel}: unknown (de)serializer method `{m.group('other')}`")
        raise TieError(f"{ctx.rel}: unsupported control flow `{tok}` in a message (de)serializer")
    return nodes


def expand(nodes):
    paths = [[]]
    for n in nodes:
        if n[0] == "op":
            paths = [p + [n[1]] for p in paths]
        else:
            alts = []
            for arm in n[1]:
                alts += expand(arm)
            paths = [p + a for p in paths for a in alts]
        if len(paths) > 4096:
            raise TieError("too many paths")
    return paths


def disc_key(path):
    return tuple(int(op.split()[1]) for op in path if op.startswith(("WDisc", "RDisc")))


def check_paths(rel, paths, ctors, fins, what):
    if not paths:
        raise TieError(f"{rel}: {what}: no path")
    for p in paths:
        if "GETDISC" in p:
            raise TieError(f"{rel}: {what}: a discriminant is read outside `match`/`let field =`")
        if len(p) < 2 or p[0] not in ctors or p[-1] not in fins:
            raise TieError(f"{rel}: {what}: path does not start with a constructor and end with finish: {p}")
        if any(op in ctors or op in fins for op in p[1:-1]):
            raise TieError(f"{rel}: {what}: constructor/finish in the middle of a path: {p}")
    keys = [disc_key(p) for p in paths]
    if len(set(keys)) != len(keys):
        raise TieError(f"{rel}: {what}: two paths choose the same discriminants: {sorted(keys)}")
    return [p for _, p in sorted(zip(keys, paths))]


def struct_fields(src):
    out = {}
    for m in re.finditer(r"\bstruct\s+\w+\s*\{", src):
        body = src[m.end():match_brace(src, m.end() - 1) - 1]
        for fm in re.finditer(r"(?:pub(?:\([a-z]+\))?\s+)?(\w+)\s*:\s*([\w:<>]+)\s*(?:,|$)", body):
            out.setdefault(fm.group(1), fm.group(2))
    return out


def scan():
    root = os.path.join(base.REPO, MSG_DIR)
    try:
        names = sorted(os.listdir(root))
    except OSError as e:
        raise TieError(f"cannot list {MSG_DIR}: {e}")
    kind_src = strip_comments(read(f"{MSG_DIR}/kind.rs"))
    kinds = repr_enum(kind_src, "MessageKind", f"{MSG_DIR}/kind.rs")
    has_value = scan_has_value(kind_src, [k for k, _ in kinds])

    global_enums = {}
    helpers = {}
    for rel in EXTRA:
        src = strip_comments(strip_tests(read(rel)))
        ens = all_repr_u8_enums(src, rel)
        for k, v in ens.items():
            if k in global_enums:
                raise TieError(f"{rel}: enum {k} defined twice among the helper files")
            global_enums[k] = v
        for h in ("serialize_into_message", "deserialize_from_message"):
            body = find_fn(src, h, rel, required=False)
            if body is not None:
                if h in helpers:
                    raise TieError(f"{rel}: helper {h} defined twice")
                helpers[h] = (rel, body, ens)

    by_kind = {}
    enums_all = dict(global_enums)
    for f in names:
        if not f.endswith(".rs") or f in SKIP:
            continue
        rel = f"{MSG_DIR}/{f}"
        src = strip_comments(strip_tests(read(rel)))
        im = re.findall(r"\bimpl\s+MessageOps\s+for\s+(\w+)", src)
        if len(im) != 1:
            raise TieError(f"{rel}: expected exactly one `impl MessageOps for`, found {im}")
        ty = im[0]
        kb = find_fn(src, "kind", rel)
        km = re.fullmatch(r"\s*MessageKind\s*::\s*(\w+)\s*", kb)
        if not km:
            raise TieError(f"{rel}: unexpected body of fn kind: `{kb.strip()}`")
        kind = km.group(1)
        if kind != ty:
            raise TieError(f"{rel}: type {ty} reports kind {kind}")
        local = all_repr_u8_enums(src, rel)
        for k, v in local.items():
            enums_all[f"{ty}.{k}"] = v
        enums = dict(global_enums, **local)
        fields = struct_fields(src)
        res = {}
        for mode, fn, ctors, fins in (("w", "serialize_message", set(W_CTORS.values()), {"WFinish"}),
                                      ("r", "deserialize_message", set(R_CTORS.values()), {"RFinish", "RFinishDiscard"})):
            ctx = Ctx(rel, mode, enums, fields, helpers)
            nodes = parse_nodes(ctx, find_fn(src, fn, rel))
            paths = check_paths(rel, expand(nodes), ctors, fins, fn)
            if not ctx.kinds_named or any(k != kind for k in ctx.kinds_named):
                raise TieError(f"{rel}: {fn} names MessageKind {sorted(set(ctx.kinds_named))}, expected {kind}")
            res[mode] = paths
        if kind in by_kind:
            raise TieError(f"{rel}: kind {kind} implemented twice")
        by_kind[kind] = res
    missing = [k for k, _ in kinds if k not in by_kind]
    extra = [k for k in by_kind if k not in dict(kinds)]
    if missing or extra:
        raise TieError(f"{MSG_DIR}: kinds without a message file {missing}, files without a kind {extra}")
    check_dispatch([k for k, _ in kinds])
    return kinds, has_value, by_kind, enums_all


def scan_has_value(kind_src, kind_names):
    body = find_fn(kind_src, "has_value", f"{MSG_DIR}/kind.rs")
    m = re.fullmatch(r"\s*match\s+self\s*\{(.*)\}\s*", body, flags=re.S)
    if not m:
        raise TieError(f"{MSG_DIR}/kind.rs: has_value is not a single `match self`")
    out = {}
    for pat, val in split_arms(m.group(1), f"{MSG_DIR}/kind.rs"):
        val = val.strip()
        if val not in ("true", "false"):
            raise TieError(f"{MSG_DIR}/kind.rs: has_value arm yields `{val}`")
        for alt in pat.split("|"):
            am = re.fullmatch(r"\s*Self\s*::\s*(\w+)\s*", alt)
            if not am:
                raise TieError(f"{MSG_DIR}/kind.rs: has_value pattern `{alt.strip()}`")
            if am.group(1) in out:
                raise TieError(f"{MSG_DIR}/kind.rs: has_value lists {am.group(1)} twice")
            out[am.group(1)] = val == "true"
    if set(out) != set(kind_names):
        raise TieError(f"{MSG_DIR}/kind.rs: has_value does not cover MessageKind exactly")
    return out


def check_dispatch(kind_names):
    """impl MessageOps for Message: kind X is (de)serialized by type X"""
    rel = "core/src/message.rs"
    src = strip_comments(strip_tests(read(rel)))
    m = re.search(r"\bimpl\s+MessageOps\s+for\s+Message\s*\{", src)
    if not m:
        raise TieError(f"{rel}: impl MessageOps for Message not found")
    body = src[m.end():match_brace(src, m.end() - 1) - 1]
    de = find_fn(body, "deserialize_message", rel)
    mm = re.search(r"\bmatch\s+kind\s*\{", de)
    if not mm:
        raise TieError(f"{rel}: deserialize_message has no `match kind`")
    head = re.sub(r"\s+", " ", de[:mm.start()]).strip()
    want = ("if buf.len() < 5 { return Err(MessageDeserializeError::UnexpectedEoi); } let kind = buf[4] "
            ".try_into() .map_err(|_| MessageDeserializeError::InvalidSerialization)?;")
    if head != want:
        raise TieError(f"{rel}: unexpected prologue of Message::deserialize_message: `{head}`")
    arms = split_arms(de[mm.end():match_brace(de, mm.end() - 1) - 1], rel)
    got = []
    for pat, val in arms:
        pm = re.fullmatch(r"MessageKind\s*::\s*(\w+)", pat)
        vm = re.fullmatch(r"\s*(\w+)\s*::\s*deserialize_message\s*\(\s*buf\s*\)\s*\.\s*map\s*\(\s*Self\s*::\s*(\w+)\s*\)\s*", val)
        if not pm or not vm or not (pm.group(1) == vm.group(1) == vm.group(2)):
            raise TieError(f"{rel}: unexpected dispatch arm `{pat} => {val.strip()}`")
        got.append(pm.group(1))
    if sorted(got) != sorted(kind_names) or len(set(got)) != len(got):
        raise TieError(f"{rel}: deserialize_message does not dispatch every kind exactly once")
    se = find_fn(body, "serialize_message", rel)
    mm = re.fullmatch(r"\s*match\s+self\s*\{(.*)\}\s*", se, flags=re.S)
    if not mm:
        raise TieError(f"{rel}: serialize_message is not a single `match self`")
    got = []
    for pat, val in split_arms(mm.group(1), rel):
        pm = re.fullmatch(r"Self\s*::\s*(\w+)\s*\(\s*msg\s*\)", pat)
        if not pm or re.sub(r"\s+", "", val) != "msg.serialize_message()":
            raise TieError(f"{rel}: unexpected serialize arm `{pat} => {val.strip()}`")
        got.append(pm.group(1))
    if sorted(got) != sorted(kind_names) or len(set(got)) != len(got):
        raise TieError(f"{rel}: serialize_message does not dispatch every kind exactly once")
    # enum Message { X(X), ... }
    em = re.search(r"\benum\s+Message\s*\{", src)
    if not em:
        raise TieError(f"{rel}: enum Message not found")
    ebody = src[em.end():match_brace(src, em.end() - 1) - 1]
    vs = re.findall(r"(\w+)\s*\(\s*(\w+)\s*\)", ebody)
    if sorted(a for a, _ in vs) != sorted(kind_names) or any(a != b for a, b in vs):
        raise TieError(f"{rel}: enum Message variants do not match MessageKind one to one")


HEADER = "(* generated by tools/rs2v.py (rs2v_msg.py) from /repo — do not edit *)"


def coq_list(items, indent="  "):
    if not items:
        return "[]"
    return "[" + "; ".join(items) + "]"


def gen_msgkinds():
    kinds, has_value, _, enums = scan()
    cs = base.coq_str
    lines = [HEADER, "From Coq Require Import NArith List String.", "Import ListNotations.",
             "Open Scope string_scope.", "Open Scope N_scope.", ""]
    lines.append("(* MessageKind discriminants (core/src/message/kind.rs) *)")
    lines.append("Definition message_kind_table : list (string * N) := [")
    lines.append(";\n".join(f"  ({cs(n)}, {d})" for n, d in kinds))
    lines.append("].\n")
    lines.append("(* MessageKind::has_value *)")
    lines.append("Definition message_has_value_table : list (string * bool) := [")
    lines.append(";\n".join(f"  ({cs(n)}, {'true' if has_value[n] else 'false'})" for n, _ in kinds))
    lines.append("].\n")
    lines.append("(* every #[repr(u8)] enum used as a wire discriminant by the message files *)")
    lines.append("Definition message_enum_table : list (string * list (string * N)) := [")
    lines.append(";\n".join("  (%s, %s)" % (cs(en), coq_list([f"({cs(v)}, {d})" for v, d in vs]))
                            for en, vs in sorted(enums.items())))
    lines.append("].")
    return "\n".join(lines) + "\n"


def gen_msgsig():
    kinds, has_value, by_kind, _ = scan()
    cs = base.coq_str
    lines = [HEADER, "From Coq Require Import NArith List String.", "Import ListNotations.",
             "Open Scope string_scope.", "Open Scope N_scope.", "",
             "(* primitive calls on MessageSerializer, in call order along one path of serialize_message *)",
             "Inductive wop := WWithout | WWith | WNone | WU32 | WUuid | WDisc (d : N) | WFinish.",
             "(* primitive calls on Message{With,Without}ValueDeserializer along one path of deserialize_message;",
             "   RDisc d = try_get_discriminant_u8 followed by the arm of the variant numbered d *)",
             "Inductive rop := RWithout | RWith | RU32 | RUuid | RDisc (d : N) | RFinish | RFinishDiscard.",
             "",
             "Record msg_sig := { sig_name : string; sig_kind : N; sig_has_value : bool;",
             "                    sig_write : list (list wop); sig_read : list (list rop) }.",
             "",
             "Definition msg_sigs : list msg_sig := ["]
    items = []
    for n, d in kinds:
        def fmt(paths):
            return "[" + ";\n       ".join(
                "[" + "; ".join(op if " " not in op else f"{op}" for op in p) + "]" for p in paths) + "]"
        items.append(
            f"  {{| sig_name := {cs(n)}; sig_kind := {d}; sig_has_value := {'true' if has_value[n] else 'false'};\n"
            f"     sig_write :=\n      {fmt(by_kind[n]['w'])};\n"
            f"     sig_read :=\n      {fmt(by_kind[n]['r'])} |}}")
    lines.append(";\n".join(items))
    lines.append("].")
    return "\n".join(lines) + "\n"
