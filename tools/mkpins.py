#!/usr/bin/env python3
"""tools/mkpins.py [Cxx ...] — record the exact statements of the theorems in coq/Props/Cxx.v
into checks/pins/Cxx.json.  ./check compares the current statements with the recorded ones, so a
property theorem cannot be weakened quietly: changing a statement needs a deliberate re-pin."""
import json, os, re, sys
root = os.path.join(os.path.dirname(os.path.abspath(__file__)), "..")
sys.path.insert(0, root)
from vlib.core import strip_coq_comments

def statements(path):
    src = strip_coq_comments(open(path, encoding="utf-8").read())
    flat = re.sub(r"\s+", " ", src)
    out = {}
    for m in re.finditer(r"(?:Theorem|Example|Corollary|Lemma)\s+(\w+)\s*:(.*?)\.\s*Proof\.", flat):
        out[m.group(1)] = m.group(2).strip()
    return out

def main():
    props = sys.argv[1:] or sorted(f[:-2] for f in os.listdir(os.path.join(root, "coq", "Props"))
                                   if re.fullmatch(r"C\d\d\.v", f))
    os.makedirs(os.path.join(root, "checks", "pins"), exist_ok=True)
    for p in props:
        st = statements(os.path.join(root, "coq", "Props", p + ".v"))
        json.dump(st, open(os.path.join(root, "checks", "pins", p + ".json"), "w"), indent=1, sort_keys=True)
        print(p, len(st), "statements pinned")
main()
