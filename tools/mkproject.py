#!/usr/bin/env python3
"""Concatenate coq/project.d/*.list (sorted by name) into coq/_CoqProject, rewriting it only when
the content changes.  Each subsystem owns one fragment, so parallel work does not collide."""
import glob, os, sys
coq = os.path.join(os.path.dirname(os.path.abspath(__file__)), "..", "coq")
parts = []
for f in sorted(glob.glob(os.path.join(coq, "project.d", "*.list"))):
    lines = []
    for line in open(f).read().splitlines():
        t = line.strip()
        if t and not t.startswith("-") and not t.startswith("#") and not os.path.exists(os.path.join(coq, t)) \
                and not t.startswith("gen/"):
            print(f"mkproject: {os.path.basename(f)} lists missing file {t} (skipped)", file=sys.stderr)
            continue
        lines.append(line)
    parts.append("\n".join(lines).strip())
text = "\n".join(p for p in parts if p) + "\n"
dst = os.path.join(coq, "_CoqProject")
if not os.path.exists(dst) or open(dst).read() != text:
    open(dst, "w").write(text)
    print("mkproject: wrote _CoqProject")
