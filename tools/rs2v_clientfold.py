"""rs2v_clientfold.py — translator part for the client-side discovery / lifetime folds (C19,
imported by rs2v.py).

The folds of coq/ClientFold/{Discoverer,Lifetime}.v are hand transcriptions of a few dozen small
Rust functions.  This module ties them to the working tree: for each transcribed function the
comment- and whitespace-free body is hashed and compared with the hash of the body the model was
transcribed from.  Any change of one of these bodies is a broken tie (TieError) naming the
function, so a changed `handle_event` cannot silently keep its old theorem.  The number of
`debug_assert`s per file (each one is a Panic site of the model) is written to
gen/ClientFoldTie.v and compared there with the model's site list.

`python3 tools/rs2v_clientfold.py --print` prints the current hashes (used once, when transcribing)."""
import hashlib
import re

# (file, text that must precede the function (the impl it belongs to), fn name) -> sha256[:16] of the body
FUNCS = [
    ("aldrin/src/discoverer/any.rs", "impl<Key> AnyObject<Key>", "new"),
    ("aldrin/src/discoverer/any.rs", "impl<Key> AnyObject<Key>", "add_filter"),
    ("aldrin/src/discoverer/any.rs", "impl<Key> AnyObject<Key>", "reset"),
    ("aldrin/src/discoverer/any.rs", "impl<Key> AnyObject<Key>", "object_id"),
    ("aldrin/src/discoverer/any.rs", "impl<Key> AnyObject<Key>", "service_cookie_unchecked"),
    ("aldrin/src/discoverer/any.rs", "impl<Key> AnyObject<Key>", "service_id"),
    ("aldrin/src/discoverer/any.rs", "impl<Key> AnyObject<Key>", "service_ids"),
    ("aldrin/src/discoverer/any.rs", "impl<Key> AnyObject<Key>", "contains"),
    ("aldrin/src/discoverer/any.rs", "impl<Key> AnyObject<Key>", "contains_any"),
    ("aldrin/src/discoverer/any.rs", "impl<Key> AnyObject<Key>", "iter"),
    ("aldrin/src/discoverer/any.rs", "impl<Key> AnyObject<Key>", "handle_event"),
    ("aldrin/src/discoverer/any.rs", "impl<Key> AnyObject<Key>", "object_created"),
    ("aldrin/src/discoverer/any.rs", "impl<Key> AnyObject<Key>", "object_destroyed"),
    ("aldrin/src/discoverer/any.rs", "impl<Key> AnyObject<Key>", "service_created"),
    ("aldrin/src/discoverer/any.rs", "impl<Key> AnyObject<Key>", "service_destroyed"),
    ("aldrin/src/discoverer/specific.rs", "impl<Key> SpecificObject<Key>", "new"),
    ("aldrin/src/discoverer/specific.rs", "impl<Key> SpecificObject<Key>", "service_id"),
    ("aldrin/src/discoverer/specific.rs", "impl<Key> SpecificObject<Key>", "service_ids"),
    ("aldrin/src/discoverer/specific.rs", "impl<Key> SpecificObject<Key>", "handle_event"),
    ("aldrin/src/discoverer/specific_with_services.rs", "impl<Key> SpecificObjectWithServices<Key>", "new"),
    ("aldrin/src/discoverer/specific_with_services.rs", "impl<Key> SpecificObjectWithServices<Key>", "add_filter"),
    ("aldrin/src/discoverer/specific_with_services.rs", "impl<Key> SpecificObjectWithServices<Key>", "reset"),
    ("aldrin/src/discoverer/specific_with_services.rs", "impl<Key> SpecificObjectWithServices<Key>", "object_id"),
    ("aldrin/src/discoverer/specific_with_services.rs", "impl<Key> SpecificObjectWithServices<Key>", "service_cookie_unchecked"),
    ("aldrin/src/discoverer/specific_with_services.rs", "impl<Key> SpecificObjectWithServices<Key>", "service_id"),
    ("aldrin/src/discoverer/specific_with_services.rs", "impl<Key> SpecificObjectWithServices<Key>", "service_ids"),
    ("aldrin/src/discoverer/specific_with_services.rs", "impl<Key> SpecificObjectWithServices<Key>", "contains"),
    ("aldrin/src/discoverer/specific_with_services.rs", "impl<Key> SpecificObjectWithServices<Key>", "iter"),
    ("aldrin/src/discoverer/specific_with_services.rs", "impl<Key> SpecificObjectWithServices<Key>", "handle_event"),
    ("aldrin/src/discoverer/specific_with_services.rs", "impl<Key> SpecificObjectWithServices<Key>", "service_created"),
    ("aldrin/src/discoverer/specific_with_services.rs", "impl<Key> SpecificObjectWithServices<Key>", "service_destroyed"),
    ("aldrin/src/discoverer/specific_without_services.rs", "impl<Key> SpecificObjectWithoutServices<Key>", "add_filter"),
    ("aldrin/src/discoverer/specific_without_services.rs", "impl<Key> SpecificObjectWithoutServices<Key>", "reset"),
    ("aldrin/src/discoverer/specific_without_services.rs", "impl<Key> SpecificObjectWithoutServices<Key>", "object_id"),
    ("aldrin/src/discoverer/specific_without_services.rs", "impl<Key> SpecificObjectWithoutServices<Key>", "service_ids"),
    ("aldrin/src/discoverer/specific_without_services.rs", "impl<Key> SpecificObjectWithoutServices<Key>", "contains"),
    ("aldrin/src/discoverer/specific_without_services.rs", "impl<Key> SpecificObjectWithoutServices<Key>", "iter"),
    ("aldrin/src/discoverer/specific_without_services.rs", "impl<Key> SpecificObjectWithoutServices<Key>", "handle_event"),
    ("aldrin/src/discoverer/specific_without_services.rs", "impl<Key> SpecificObjectWithoutServices<Key>", "object_created"),
    ("aldrin/src/discoverer/specific_without_services.rs", "impl<Key> SpecificObjectWithoutServices<Key>", "object_destroyed"),
    ("aldrin/src/discoverer/builder.rs", "impl<'a, Key> DiscovererBuilder<'a, Key>", "add"),
    ("aldrin/src/discoverer/event.rs", "impl<Key> DiscovererEvent<Key>", "service_ids"),
    ("aldrin/src/discoverer.rs", "impl<Key> Discoverer<Key>", "new"),
    ("aldrin/src/discoverer.rs", "impl<Key> Discoverer<Key>", "stop"),
    ("aldrin/src/discoverer.rs", "impl<Key> Discoverer<Key>", "restart"),
    ("aldrin/src/discoverer.rs", "impl<Key> Discoverer<Key>", "poll_next_event"),
    ("aldrin/src/lifetime.rs", "impl Lifetime {", "new"),
    ("aldrin/src/lifetime.rs", "impl Lifetime {", "poll_ended"),
    ("aldrin/src/lifetime.rs", "impl Lifetime {", "has_ended"),
    ("aldrin/src/lifetime.rs", "impl LifetimeListener {", "start"),
    ("aldrin/src/handle.rs", "impl Handle {", "find_object"),
    ("aldrin/src/handle.rs", "impl Handle {", "wait_for_object"),
    ("aldrin/src/bus_listener.rs", "impl BusListener {", "start"),
    ("aldrin/src/bus_listener.rs", "impl BusListener {", "stop"),
    ("aldrin/src/bus_listener.rs", "impl BusListener {", "is_finished"),
    ("aldrin/src/bus_listener.rs", "impl BusListener {", "poll_next_event"),
    ("aldrin/src/bus_listener.rs", "impl BusListener {", "includes_new"),
    ("aldrin/src/bus_listener.rs", "impl BusListenerHandle {", "start"),
    ("aldrin/src/bus_listener.rs", "impl BusListenerHandle {", "stop"),
    ("aldrin/src/bus_listener.rs", "impl BusListenerHandle {", "current_finished"),
    ("aldrin/src/bus_listener.rs", "impl BusListenerHandle {", "emit_current"),
    ("aldrin/src/bus_listener.rs", "impl BusListenerHandle {", "emit_new_if_matches"),
    ("aldrin/src/bus_listener.rs", "impl BusListenerHandle {", "matches_filters"),
]

EXPECTED = {
    "aldrin/src/discoverer/any.rs::impl<Key> AnyObject<Key>::new": "2e835047ce5b9357",
    "aldrin/src/discoverer/any.rs::impl<Key> AnyObject<Key>::add_filter": "841a9a8c0d2d63e3",
    "aldrin/src/discoverer/any.rs::impl<Key> AnyObject<Key>::reset": "38c7c2caaf4b3a4d",
    "aldrin/src/discoverer/any.rs::impl<Key> AnyObject<Key>::object_id": "e8cb2b0d58ec143e",
    "aldrin/src/discoverer/any.rs::impl<Key> AnyObject<Key>::service_cookie_unchecked": "23bd7b5fb77886c7",
    "aldrin/src/discoverer/any.rs::impl<Key> AnyObject<Key>::service_id": "8494eed951a4ad19",
    "aldrin/src/discoverer/any.rs::impl<Key> AnyObject<Key>::service_ids": "50953e0b8e5d3eed",
    "aldrin/src/discoverer/any.rs::impl<Key> AnyObject<Key>::contains": "b765dea2c6f9683d",
    "aldrin/src/discoverer/any.rs::impl<Key> AnyObject<Key>::contains_any": "743fc661f63fc34a",
    "aldrin/src/discoverer/any.rs::impl<Key> AnyObject<Key>::iter": "9fe0c170eae817d5",
    "aldrin/src/discoverer/any.rs::impl<Key> AnyObject<Key>::handle_event": "e220ce52fca3019f",
    "aldrin/src/discoverer/any.rs::impl<Key> AnyObject<Key>::object_created": "faebb16dd19c8ab6",
    "aldrin/src/discoverer/any.rs::impl<Key> AnyObject<Key>::object_destroyed": "a84a38ddabdecaaa",
    "aldrin/src/discoverer/any.rs::impl<Key> AnyObject<Key>::service_created": "3ace155a9205f9d9",
    "aldrin/src/discoverer/any.rs::impl<Key> AnyObject<Key>::service_destroyed": "4649c2013d38b3dc",
    "aldrin/src/discoverer/specific.rs::impl<Key> SpecificObject<Key>::new": "8150b8ede42245c2",
    "aldrin/src/discoverer/specific.rs::impl<Key> SpecificObject<Key>::service_id": "d56936a8850c609d",
    "aldrin/src/discoverer/specific.rs::impl<Key> SpecificObject<Key>::service_ids": "93bd81bfe6669258",
    "aldrin/src/discoverer/specific.rs::impl<Key> SpecificObject<Key>::handle_event": "f3dfb1644df8ea8e",
    "aldrin/src/discoverer/specific_with_services.rs::impl<Key> SpecificObjectWithServices<Key>::new": "813f098eb2eb328d",
    "aldrin/src/discoverer/specific_with_services.rs::impl<Key> SpecificObjectWithServices<Key>::add_filter": "448deb60518b48f1",
    "aldrin/src/discoverer/specific_with_services.rs::impl<Key> SpecificObjectWithServices<Key>::reset": "c59ec211e2536f85",
    "aldrin/src/discoverer/specific_with_services.rs::impl<Key> SpecificObjectWithServices<Key>::object_id": "7141986a462c635c",
    "aldrin/src/discoverer/specific_with_services.rs::impl<Key> SpecificObjectWithServices<Key>::service_cookie_unchecked": "4c4ec5369f92ed8d",
    "aldrin/src/discoverer/specific_with_services.rs::impl<Key> SpecificObjectWithServices<Key>::service_id": "333204008d01f5fb",
    "aldrin/src/discoverer/specific_with_services.rs::impl<Key> SpecificObjectWithServices<Key>::service_ids": "5e95a9c31d455b92",
    "aldrin/src/discoverer/specific_with_services.rs::impl<Key> SpecificObjectWithServices<Key>::contains": "a853c1ae970c15b2",
    "aldrin/src/discoverer/specific_with_services.rs::impl<Key> SpecificObjectWithServices<Key>::iter": "ace5f456e29fae9f",
    "aldrin/src/discoverer/specific_with_services.rs::impl<Key> SpecificObjectWithServices<Key>::handle_event": "42b6664ce1fa089f",
    "aldrin/src/discoverer/specific_with_services.rs::impl<Key> SpecificObjectWithServices<Key>::service_created": "d2679639f93cb641",
    "aldrin/src/discoverer/specific_with_services.rs::impl<Key> SpecificObjectWithServices<Key>::service_destroyed": "bc09a0d99a4289a9",
    "aldrin/src/discoverer/specific_without_services.rs::impl<Key> SpecificObjectWithoutServices<Key>::add_filter": "2da1ed6176afd634",
    "aldrin/src/discoverer/specific_without_services.rs::impl<Key> SpecificObjectWithoutServices<Key>::reset": "440c35635dd84207",
    "aldrin/src/discoverer/specific_without_services.rs::impl<Key> SpecificObjectWithoutServices<Key>::object_id": "7141986a462c635c",
    "aldrin/src/discoverer/specific_without_services.rs::impl<Key> SpecificObjectWithoutServices<Key>::service_ids": "572718dc0ebee625",
    "aldrin/src/discoverer/specific_without_services.rs::impl<Key> SpecificObjectWithoutServices<Key>::contains": "a853c1ae970c15b2",
    "aldrin/src/discoverer/specific_without_services.rs::impl<Key> SpecificObjectWithoutServices<Key>::iter": "3b526e54534f4ce7",
    "aldrin/src/discoverer/specific_without_services.rs::impl<Key> SpecificObjectWithoutServices<Key>::handle_event": "ddb604f363c02128",
    "aldrin/src/discoverer/specific_without_services.rs::impl<Key> SpecificObjectWithoutServices<Key>::object_created": "940dfc4b88fdf5ff",
    "aldrin/src/discoverer/specific_without_services.rs::impl<Key> SpecificObjectWithoutServices<Key>::object_destroyed": "9ce348fa7b48d611",
    "aldrin/src/discoverer/builder.rs::impl<'a, Key> DiscovererBuilder<'a, Key>::add": "20a9cc8b9482aaaa",
    "aldrin/src/discoverer/event.rs::impl<Key> DiscovererEvent<Key>::service_ids": "ac042f8501c92d51",
    "aldrin/src/discoverer.rs::impl<Key> Discoverer<Key>::new": "547b61239aa0891f",
    "aldrin/src/discoverer.rs::impl<Key> Discoverer<Key>::stop": "f6e0b11373a33963",
    "aldrin/src/discoverer.rs::impl<Key> Discoverer<Key>::restart": "aef0d6f0c6b64b9d",
    "aldrin/src/discoverer.rs::impl<Key> Discoverer<Key>::poll_next_event": "e332f9f393ef2a64",
    "aldrin/src/lifetime.rs::impl Lifetime {::new": "7eb42142565ca999",
    "aldrin/src/lifetime.rs::impl Lifetime {::poll_ended": "bb11fc95e20319a3",
    "aldrin/src/lifetime.rs::impl Lifetime {::has_ended": "611bd1d61676a4fd",
    "aldrin/src/lifetime.rs::impl LifetimeListener {::start": "48a254f48315bb02",
    "aldrin/src/handle.rs::impl Handle {::find_object": "ca92a7edab6f3bca",
    "aldrin/src/handle.rs::impl Handle {::wait_for_object": "acc1a3aae797b90a",
    "aldrin/src/bus_listener.rs::impl BusListener {::start": "d461ec4d4e6e8d65",
    "aldrin/src/bus_listener.rs::impl BusListener {::stop": "495f2b0c01e54400",
    "aldrin/src/bus_listener.rs::impl BusListener {::is_finished": "68cd62d50d68a2d8",
    "aldrin/src/bus_listener.rs::impl BusListener {::poll_next_event": "b835546625e321c4",
    "aldrin/src/bus_listener.rs::impl BusListener {::includes_new": "6880be4c6f9c17ee",
    "aldrin/src/bus_listener.rs::impl BusListenerHandle {::start": "ba3f1ec17feafdae",
    "aldrin/src/bus_listener.rs::impl BusListenerHandle {::stop": "740b717f0aeab308",
    "aldrin/src/bus_listener.rs::impl BusListenerHandle {::current_finished": "767fd6b2024f1121",
    "aldrin/src/bus_listener.rs::impl BusListenerHandle {::emit_current": "7dd53cec06af4fa4",
    "aldrin/src/bus_listener.rs::impl BusListenerHandle {::emit_new_if_matches": "19a4613bc6b6a111",
    "aldrin/src/bus_listener.rs::impl BusListenerHandle {::matches_filters": "8e486799fb2b2c6e",
}

ASSERT_FILES = ["aldrin/src/discoverer/any.rs", "aldrin/src/discoverer/specific_with_services.rs",
                "aldrin/src/discoverer/specific_without_services.rs", "aldrin/src/lifetime.rs"]


def body_hash(src, anchor, name, rel, match_brace, TieError):
    i = src.find(anchor)
    if i < 0:
        raise TieError(f"{rel}: `{anchor}` not found")
    m = re.compile(r"\bfn\s+" + re.escape(name) + r"\b").search(src, i)
    if not m:
        raise TieError(f"{rel}: fn {name} not found after `{anchor}`")
    j = src.find("{", m.end())
    # skip a where-clause / return type: the body is the first brace block after the signature
    if j < 0:
        raise TieError(f"{rel}: fn {name} has no body")
    sig = re.sub(r"\s+", "", src[m.start():j])
    body = re.sub(r"\s+", "", src[j:match_brace(src, j)])
    return hashlib.sha256((sig + body).encode()).hexdigest()[:16]


def current(read, strip_comments, match_brace, TieError):
    out = {}
    cache = {}
    for rel, anchor, name in FUNCS:
        if rel not in cache:
            cache[rel] = strip_comments(read(rel))
        out[f"{rel}::{anchor}::{name}"] = body_hash(cache[rel], anchor, name, rel, match_brace, TieError)
    return out, cache


def gen_clientfold_tie(read, strip_comments, match_brace, TieError):
    cur, cache = current(read, strip_comments, match_brace, TieError)
    changed = [k for k, v in cur.items() if EXPECTED.get(k) != v]
    if changed:
        raise TieError("the model ClientFold/{Discoverer,Lifetime}.v was transcribed from other bodies of: "
                       + ", ".join(changed))
    counts = []
    for rel in ASSERT_FILES:
        src = cache.get(rel) or strip_comments(read(rel))
        n = len(re.findall(r"\bdebug_assert(?:_eq|_ne)?!\s*\(", src))
        u = len(re.findall(r"\bunreachable!\s*\(", src))
        counts.append((rel, n, u))
    lines = ["(* generated by tools/rs2v.py from /repo — do not edit *)",
             "From Coq Require Import NArith.", "Open Scope N_scope.", "",
             f"Definition CLIENTFOLD_TIED_FUNCTIONS : N := {len(cur)}.  (* bodies equal to the transcribed ones *)"]
    names = {"any.rs": "ANY", "specific_with_services.rs": "WITH", "specific_without_services.rs": "WITHOUT",
             "lifetime.rs": "LIFETIME"}
    for rel, n, u in counts:
        key = names[rel.split("/")[-1]]
        lines.append(f"Definition {key}_DEBUG_ASSERTS : N := {n}.  (* debug_assert*!( in {rel} *)")
        lines.append(f"Definition {key}_UNREACHABLE : N := {u}.  (* unreachable!( in {rel} *)")
    return "\n".join(lines) + "\n"


if __name__ == "__main__":
    import sys
    import os
    sys.path.insert(0, os.path.dirname(os.path.abspath(__file__)))
    import rs2v
    cur, _ = current(rs2v.read, rs2v.strip_comments, rs2v.match_brace, rs2v.TieError)
    for k, v in cur.items():
        print(f'    "{k}": "{v}",')
