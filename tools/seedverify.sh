#!/bin/bash
# tools/seedverify.sh <ID> <worktree> <crate-to-test> : confirm a seeded change myself
# (demo passes on clean sources, fails with the patch; the crate's tests pass with the patch)
ID=$1; WT=$2; CRATE=$3
cd "$WT" || exit 2
git checkout -q -- . 2>/dev/null
git apply --check seed/patch.diff || { echo "PATCH DOES NOT APPLY"; exit 2; }
cp Cargo.lock seed/demo/ 2>/dev/null
run_demo() { ( cd seed/demo && if [ -d tests ] || grep -q "\[lib\]" Cargo.toml 2>/dev/null || [ -f src/lib.rs ]; then timeout 2400 cargo test --offline 2>&1 | grep -E "test result|FAILED|panicked" | head -6; else timeout 2400 cargo run --offline 2>&1 | tail -4; echo "exit=$?"; fi ) }
echo "--- demo on clean sources"; run_demo
git apply seed/patch.diff
echo "--- demo with the patch"; run_demo
echo "--- cargo test -p $CRATE with the patch"; timeout 3000 cargo test --offline -p $CRATE 2>&1 | grep -E "test result|FAILED|error" | head -8
git checkout -q -- .
git status --short | head -3
