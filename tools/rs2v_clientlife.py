"""rs2v_clientlife.py — translator part for the client life-cycle model (C15; imported by rs2v.py).

Reads aldrin/src/client.rs and aldrin/src/client/select.rs:

* the bodies of `Client::run`, `Client::drain_transport`, `Select::poll_select` and `Select::next`
  are compared, whitespace-free, with the shapes Proto/ClientLife.v transcribes; any other shape is
  a broken tie (TieError) — the automaton's control flow has to be re-read then;
* for every `req_*` handler: the `self.<map>.insert(` it performs and the message structs it
  builds; for every `msg_*` handler (and `abort_function_call`): the `self.<map>.remove(` it
  performs.  These tables go to gen/ClientLifeSig.v; Proto/ClientLifeTie.v compares them, as
  sets of names per handler, with what the automaton does when it is run on probe states.
"""
import re

RUN_SHAPE = (
    "{letwait_for_shutdown=loop{matchself.select().await{"
    "Selected::Transport(Ok(Message::Shutdown(Shutdown)))=>breakfalse,"
    "Selected::Transport(Ok(msg))=>self.handle_message(msg).await?,"
    "Selected::Handle(HandleRequest::Shutdown)=>breaktrue,"
    "Selected::Handle(req)=>{self.handle_request(req).await?;}"
    "Selected::AbortFunctionCall(serial)=>self.abort_function_call(serial).await?,"
    "Selected::TransportFlushed(Ok(()))=>self.flush_transport=false,"
    "Selected::Transport(Err(e))|Selected::TransportFlushed(Err(e))=>{returnErr(RunError::Transport(e));}}"
    "ifself.num_handles==1{breaktrue;}};"
    "send!(self,Shutdown)?;self.drain_transport(wait_for_shutdown).await?;Ok(())}"
)
DRAIN_SHAPE = (
    "{whilewait_for_shutdown||self.flush_transport{matchself.select().await{"
    "Selected::Transport(Ok(Message::Shutdown(Shutdown)))=>wait_for_shutdown=false,"
    "Selected::TransportFlushed(Ok(()))=>self.flush_transport=false,"
    "Selected::Transport(Err(e))|Selected::TransportFlushed(Err(e))=>{returnErr(RunError::Transport(e))}"
    "Selected::AbortFunctionCall(serial)=>self.function_calls.abort(serial),"
    "Selected::Transport(Ok(_))|Selected::Handle(_)=>{}}}Ok(())}"
)
POLL_SELECT_SHAPE = (
    "{for_in0..4{matchself.next(){"
    "Self::Transport=>{ifletPoll::Ready(res)=transport.receive_poll_unpin(cx){returnPoll::Ready(Selected::Transport(res));}}"
    "Self::Handle=>{ifletPoll::Ready(res)=Pin::new(&mut*handle).poll_next(cx){returnPoll::Ready(Selected::Handle(res.unwrap()));}}"
    "Self::AbortFunctionCall=>{ifletPoll::Ready(serial)=function_calls.poll_aborted(cx){returnPoll::Ready(Selected::AbortFunctionCall(serial));}}"
    "Self::TransportFlushed=>{ifflush_transport{ifletPoll::Ready(res)=transport.send_poll_flush_unpin(cx){returnPoll::Ready(Selected::TransportFlushed(res));}}}}}"
    "Poll::Pending}"
)
NEXT_SHAPE = (
    "{letnext=matchself{Self::Transport=>Self::Handle,Self::Handle=>Self::AbortFunctionCall,"
    "Self::AbortFunctionCall=>Self::TransportFlushed,Self::TransportFlushed=>Self::Transport,};"
    "mem::replace(self,next)}"
)
SEND_MACRO_SHAPE = (
    "{$self:expr,$msg:expr}=>{{letmutmsg=$msg;msg.convert_value(None,$self.version)?;"
    "$self.transport.send(msg).await.map_err(RunError::Transport)?;$self.flush_transport=true;Ok::<_,RunError<_>>(())}};"
)

# the maps of `struct Client` the automaton models (field name -> mapk constructor of ClientLife.v)
MAPS = ["create_object", "destroy_object", "create_service", "destroy_service", "function_calls", "services",
        "create_channel", "close_channel_end", "claim_channel_end", "senders", "receivers", "sync",
        "create_bus_listener", "destroy_bus_listener", "start_bus_listener", "stop_bus_listener", "bus_listeners",
        "abort_call_handles", "query_service_info", "query_service_version", "subscribe_event", "subscribe_service",
        "subscribe_all_events", "unsubscribe_all_events", "proxies", "query_introspection"]


def _fn_body(src, name, match_brace, rel, TieError, nth=0):
    """body (with braces, original whitespace) of the nth `fn name` in src"""
    ms = list(re.finditer(r"\bfn\s+" + re.escape(name) + r"\b", src))
    if len(ms) <= nth:
        raise TieError(f"{rel}: fn {name} not found")
    i = src.index("{", _sig_end(src, ms[nth].end()))
    return src[i:match_brace(src, i)]


def _sig_end(src, i):
    """index after the parameter list of a fn whose name ends at i (skips nested parentheses)"""
    j = src.index("(", i)
    depth = 0
    while True:
        if src[j] == "(":
            depth += 1
        elif src[j] == ")":
            depth -= 1
            if depth == 0:
                return j
        j += 1


def _flat(s):
    return re.sub(r"\s+", "", s)


def gen_clientlife_sig(read, strip_comments, match_brace, TieError):
    rel = "aldrin/src/client.rs"
    src = strip_comments(read(rel))
    rel_sel = "aldrin/src/client/select.rs"
    sel = strip_comments(read(rel_sel))

    for name, shape, text, r in (("run", RUN_SHAPE, src, rel), ("drain_transport", DRAIN_SHAPE, src, rel),
                                 ("poll_select", POLL_SELECT_SHAPE, sel, rel_sel), ("next", NEXT_SHAPE, sel, rel_sel)):
        body = _flat(_fn_body(text, name, match_brace, r, TieError))
        if body != shape:
            raise TieError(f"{r}: the body of fn {name} is not the shape Proto/ClientLife.v transcribes:\n  {body}")
    m = re.search(r"macro_rules!\s*send\s*\{", src)
    if not m:
        raise TieError(f"{rel}: macro send! not found")
    mb = _flat(src[m.end():match_brace(src, m.end() - 1) - 1])
    if mb != SEND_MACRO_SHAPE:
        raise TieError(f"{rel}: macro send! has another shape:\n  {mb}")
    # Buffered::send never fails at transport level: send_poll_ready is always ready, send_start only queues
    buf = _flat(strip_comments(read("core/src/transport/buffered.rs")))
    if "fnsend_poll_ready(self:Pin<&mutSelf>,_cx:&mutContext)->Poll<Result<(),Self::Error>>{Poll::Ready(Ok(()))}" not in buf \
            or "fnsend_start(self:Pin<&mutSelf>,msg:Message)->Result<(),Self::Error>{self.project().buffer.push_back(msg);Ok(())}" not in buf:
        raise TieError("core/src/transport/buffered.rs: Buffered::send_poll_ready / send_start changed shape")
    if not re.search(r"transport\s*:\s*Buffered<T>", src):
        raise TieError(f"{rel}: Client::transport is not Buffered<T>")

    # message kinds (to recognise struct literals of messages)
    kinds_src = strip_comments(read("core/src/message/kind.rs")) if _exists(read, "core/src/message/kind.rs") else ""
    kinds = set(re.findall(r"\b([A-Z]\w+)\s*=\s*\d+", kinds_src))
    if len(kinds) < 50:
        raise TieError("core/src/message/kind.rs: MessageKind variants not found")

    fns = re.findall(r"\bfn\s+((?:req|msg)_\w+|abort_function_call|finish_create_proxy)\b", src)
    seen = []
    for f in fns:
        if f not in seen:
            seen.append(f)
    reqs, msgs = [], []
    for f in seen:
        # with and without the `introspection` feature a handler may exist twice: the first is the cfg(feature) one
        body = _flat(_fn_body(src, f, match_brace, rel, TieError))
        ins = set(x for x in re.findall(r"self\.(\w+)\.insert\(", body) if x in MAPS)
        rem = set(x for x in re.findall(r"self\.(\w+)\.remove\(", body) if x in MAPS)
        if "self.proxies.create(" in body:
            ins.add("proxies")           # Proxies::create stores the event sender
        if "self.proxies.remove_service(" in body:
            rem.add("proxies")           # Proxies::remove_service drops the entries of a service
        ins, rem = sorted(ins), sorted(rem)
        if f.startswith("req_") or f in ("abort_function_call", "finish_create_proxy"):
            lits = [k for k in re.findall(r"\b([A-Z]\w+)\{", body) if k in kinds]
            mm = re.search(r"\bfn\s+" + f + r"\s*\(\s*&mut\s+self\s*,\s*req\s*:\s*(\w+)", src)
            if "send!(self,req)" in body and mm and mm.group(1) in kinds:
                lits.append(mm.group(1))
            sends = sorted(set(lits))
            flush = "self.transport.flush().await" in body
            reqs.append((f, ins, rem, sends, flush))
        if f.startswith("msg_"):
            msgs.append((f, ins, rem))
    if len(reqs) < 35 or len(msgs) < 35:
        raise TieError(f"{rel}: only {len(reqs)} request and {len(msgs)} message handlers found")

    def lst(xs):
        return "[" + "; ".join('"%s"' % x for x in xs) + "]"

    out = ["(* generated by tools/rs2v.py (rs2v_clientlife.py) from /repo — do not edit *)",
           "From Coq Require Import String List.", "Import ListNotations.", "Open Scope string_scope.", "",
           "(* aldrin/src/client.rs: the bodies of run, drain_transport, the macro send!, and of",
           "   Select::poll_select / Select::next (client/select.rs) have the transcribed shape; Buffered::send only queues *)",
           "Definition CLIENT_RUN_SHAPE_OK : bool := true.", "",
           "(* request handlers: (fn, SerialMap/HashMap fields it inserts into, fields it removes from,",
           "   message structs it builds, has an inline self.transport.flush().await) *)",
           "Definition CLIENT_REQ_SIG : list (string * list string * list string * list string * bool) := ["]
    out.append(";\n".join('  ("%s", %s, %s, %s, %s)' % (f, lst(i), lst(r), lst(s), "true" if fl else "false")
                          for f, i, r, s, fl in reqs))
    out.append("].")
    out.append("")
    out.append("(* message handlers: (fn, fields it inserts into, fields it removes from) *)")
    out.append("Definition CLIENT_MSG_SIG : list (string * list string * list string) := [")
    out.append(";\n".join('  ("%s", %s, %s)' % (f, lst(i), lst(r)) for f, i, r in msgs))
    out.append("].")
    return "\n".join(out) + "\n"


def _exists(read, rel):
    try:
        read(rel)
        return True
    except Exception:
        return False
