#!/usr/bin/env python3
"""Assemble MANIFEST.json from checks/*.manifest.json (one object per claimed property); every
property without a manifest fragment is listed under not_applicable with the reason given in
tools/not_applicable.json (default: not built yet)."""
import glob, json, os
root = os.path.join(os.path.dirname(os.path.abspath(__file__)), "..")
allow = {l.strip() for l in open(os.path.join(root, "tools", "claimed.txt")) if l.strip()}
checks = []
for f in sorted(glob.glob(os.path.join(root, "checks", "c*.manifest.json"))):
    c = json.load(open(f))
    if c["property_id"] not in allow:
        continue
    c.setdefault("evidence_file", f"/verif/evidence/{c['property_id']}.json")
    checks.append(c)
claimed = {c["property_id"] for c in checks}
props = [json.loads(l)["id"] for l in open(os.path.join(root, "properties.jsonl"))]
reasons = {}
p = os.path.join(root, "tools", "not_applicable.json")
if os.path.exists(p):
    reasons = json.load(open(p))
engines = {}
for c in checks:
    e = c.get("engine", "coq")
    engines.setdefault(e, []).append(c["property_id"])
ENGINE_TEXT = {
    "coq-codec": ("coq/Codec", "Coq model of the value codec (Base/Value/Ser/De/Skip/Convert) with proofs; extracted OCaml driver + Rust harness `codec`"),
    "coq-msg": ("coq/Msg", "Coq model of the 63-kind message codec (generic field grammar + descriptor table tied to the sources); extracted driver + harness `msg`"),
    "coq-stream": ("coq/Stream", "Coq model of the packetizer and the stream transports; extracted driver + harness `stream`"),
    "coq-broker": ("coq/Broker", "Coq abstract broker machine (one atomic step per event) with proofs; extracted driver replaying traces of the real broker written by harness `broker`"),
    "coq-schema": ("coq/Schema", "Coq model of the schema AST/tokens/printer/parser; harness `schema`"),
    "coq-intro": ("coq/Intro", "Coq model of the introspection IR, canonical bytes and type ids; harness `intro`"),
    "coq-proto": ("coq/Proto", "Coq protocol automata (handshake, client life cycle, credit, discovery folds); harnesses over the real client API"),
    "coq-clientfold": ("coq/ClientFold", "Coq folds of the discoverer entries, lifetimes and listener bookkeeping over bus-event sequences; harness `discover` over the real client API"),
    "coq-derive": ("coq/Derive", "Coq model of the derive macros' wire contract; harness compiling generated code"),
}
m = {
    "version": 1,
    "setup_cmd": "./setup.sh",
    "hooks": json.load(open(os.path.join(root, "tools", "hooks.json"))),
    "engines": [{"name": e, "path": ENGINE_TEXT.get(e, ("coq", ""))[0], "serves_properties": sorted(ps),
                 "kind_free_text": ENGINE_TEXT.get(e, ("coq", "Coq model + proofs + correspondence"))[1]}
                for e, ps in sorted(engines.items())],
    "checks": checks,
    "not_applicable": [{"property_id": p, "reason": reasons.get(p, "not yet built in this round (work in progress; see DESIGN.md §7 build order)")}
                       for p in props if p not in claimed],
    "notes": "see DESIGN.md; MANIFEST.json is assembled by tools/mkmanifest.py from checks/*.manifest.json",
}
json.dump(m, open(os.path.join(root, "MANIFEST.json"), "w"), indent=1)
print("claimed:", sorted(claimed))
