"""rs2v_intro.py — the C20 part of the translator (registered in rs2v.py as IntroConsts.v).

Reads core/src/introspection.rs and core/src/introspection/** and writes coq/gen/IntroConsts.v:
  * every `#[repr(u32)] enum` of the IR (`Ir_<Enum>_<Variant>`) and of the resolved layout types,
    the `Introspection` record and `Compute` (`Rs_<Enum>_<Variant>`) as `N` constants,
  * `VERSION`, the 19 built-in lexical ids, the 11 lexical namespaces and the 5 layout
    namespaces as 16-byte lists,
  * tables: the writer-call sequence of every hand-written `Serialize` impl (struct impls: one
    row per `serialize`/`serialize_if_some` call with tag and field; enum impls: one row per
    match arm), `LayoutIr::namespace`, the `LexicalId` constructors (helper + namespace) and
    `BuiltInTypeIr::lexical_id`.
`h` is the rs2v module (read, strip_comments, match_brace, repr_enum, TieError, coq_str)."""
import re

IR_FILES = ["array_type", "built_in_type", "enum_fallback", "enum_ty", "event", "event_fallback",
            "field", "function", "function_fallback", "layout", "map_type", "newtype",
            "result_type", "service", "struct_fallback", "struct_ty", "variant"]
RS_FILES = IR_FILES + ["type_id"]
BASE = "core/src/introspection"


def _enums(h, src, rel):
    out = []
    for m in re.finditer(r"#\[repr\(u32\)\]\s*(?:pub\s+)?enum\s+(\w+)", src):
        out.append((m.group(1), h.repr_enum(src, m.group(1), rel)))
    return out


def _uuid_bytes(h, s, rel):
    hx = s.replace("-", "")
    if not re.fullmatch(r"[0-9a-fA-F]{32}", hx):
        raise h.TieError(f"{rel}: bad uuid literal {s}")
    return [int(hx[2 * i:2 * i + 2], 16) for i in range(16)]


def _bytes_coq(bs):
    return "[" + "; ".join(str(b) for b in bs) + "]"


def _ser_impls(h, src, rel):
    """[(impl type, kind, rows)] for the Serialize impls that write something themselves"""
    res = []
    for m in re.finditer(r"impl\s+Serialize<([\w:]+)>\s+for\s+(&?)(\w+)\s*\{", src):
        body = src[m.end():h.match_brace(src, m.end() - 1) - 1]
        f = re.search(r"fn\s+serialize\s*\(\s*self\s*,\s*serializer\s*:\s*Serializer\s*\)[^{]*\{", body)
        if not f:
            raise h.TieError(f"{rel}: impl Serialize for {m.group(3)}: fn serialize not found")
        fb = body[f.end():h.match_brace(body, f.end() - 1) - 1]
        flat = re.sub(r"\s+", "", fb)
        name = m.group(3)
        if re.fullmatch(r"serializer\.serialize(::<[\w:]+>)?\([&*]*self\)", flat):
            continue  # forwards to another impl
        if flat.startswith("letmutserializer=serializer.serialize_struct"):
            mo = re.match(r"letmutserializer=serializer\.(serialize_struct2\(\)|serialize_struct1\((\d+)\))\?;", flat)
            if not mo:
                raise h.TieError(f"{rel}: {name}: unexpected struct opener")
            rest = flat[mo.end():]
            rows = [("open", mo.group(1).split("(")[0] + (":" + mo.group(2) if mo.group(2) else ""), "")]
            while rest != "serializer.finish()":
                mc = re.match(r"serializer\.(serialize|serialize_if_some)::<(.+?)>\((\w+)::(\w+),([^;]*?)\)\?;", rest)
                if not mc:
                    raise h.TieError(f"{rel}: {name}: unexpected statement `{rest[:80]}`")
                rows.append((mc.group(1), mc.group(2), mc.group(3) + "::" + mc.group(4)))
                rest = rest[mc.end():]
            res.append((name, "struct", rows))
        elif flat.startswith("matchself{"):
            inner = flat[len("matchself{"):-1]
            rows = []
            # arms: Pat=>expr, | Pat=>{expr}
            pos = 0
            while pos < len(inner):
                ma = re.match(r"(\w+)::(\w+)(?:\((\w+)\))?=>", inner[pos:])
                if not ma:
                    raise h.TieError(f"{rel}: {name}: unexpected match arm `{inner[pos:pos+60]}`")
                pos += ma.end()
                if inner[pos] == "{":
                    end = h.match_brace(inner, pos)
                    expr = inner[pos + 1:end - 1]
                    pos = end
                    if pos < len(inner) and inner[pos] == ",":
                        pos += 1
                else:
                    end = inner.find(",", pos)
                    # the call itself contains one comma between id and value for serialize_enum
                    mcall = re.match(r"serializer\.serialize_enum::<.+?>\(\w+::\w+,\w+\)|serializer\.serialize_unit_enum\(\w+::\w+\)", inner[pos:])
                    if not mcall:
                        raise h.TieError(f"{rel}: {name}: unexpected arm body `{inner[pos:pos+80]}`")
                    expr = mcall.group(0)
                    pos += mcall.end()
                    if pos < len(inner) and inner[pos] == ",":
                        pos += 1
                me = re.fullmatch(r"serializer\.serialize_enum::<(.+?)>\((\w+)::(\w+),(\w+)\)", expr)
                mu = re.fullmatch(r"serializer\.serialize_unit_enum\((\w+)::(\w+)\)", expr)
                if me:
                    if me.group(4) != (ma.group(3) or ""):
                        raise h.TieError(f"{rel}: {name}: arm {ma.group(2)} serializes `{me.group(4)}`")
                    rows.append((ma.group(2), me.group(1), me.group(2) + "::" + me.group(3)))
                elif mu:
                    if ma.group(3):
                        raise h.TieError(f"{rel}: {name}: unit arm {ma.group(2)} binds a payload")
                    rows.append((ma.group(2), "unit", mu.group(1) + "::" + mu.group(2)))
                else:
                    raise h.TieError(f"{rel}: {name}: unexpected arm body `{expr[:80]}`")
            res.append((name, "enum", rows))
        elif re.fullmatch(r"serializer\.serialize_uuid\(self\.0\)", flat):
            res.append((name, "uuid", []))
        else:
            raise h.TieError(f"{rel}: impl Serialize for {name}: unexpected body `{flat[:100]}`")
    return res


def gen_intro_consts(h):
    L = ["(* generated by tools/rs2v.py (rs2v_intro.py) from /repo — do not edit *)",
         "From Coq Require Import NArith List String.", "Import ListNotations.",
         "Open Scope string_scope.", "Open Scope N_scope.", ""]
    top_rel = "core/src/introspection.rs"
    top = h.strip_comments(h.read(top_rel))
    m = re.search(r"pub\s+const\s+VERSION\s*:\s*u32\s*=\s*(\d+)\s*;", top)
    if not m:
        raise h.TieError(f"{top_rel}: const VERSION not found")
    L.append(f"Definition INTROSPECTION_VERSION : N := {m.group(1)}.")
    L.append("")

    enum_rows = []
    sigs = []
    for prefix, sub, files in (("Ir", "ir/", IR_FILES), ("Rs", "", RS_FILES)):
        for f in files:
            if prefix == "Ir" and f == "type_id":
                continue
            rel = f"{BASE}/{sub}{f}.rs"
            src = h.strip_comments(h.read(rel))
            es = _enums(h, src, rel)
            if not es:
                raise h.TieError(f"{rel}: no #[repr(u32)] enum found")
            for en, vs in es:
                for vn, d in vs:
                    L.append(f"Definition {prefix}_{en}_{vn} : N := {d}.")
                enum_rows.append((prefix + "_" + en, vs))
            for name, kind, rows in _ser_impls(h, src, rel):
                sigs.append((prefix, name, kind, rows))
    for en, vs in _enums(h, top, top_rel):
        for vn, d in vs:
            L.append(f"Definition Rs_{en}_{vn} : N := {d}.")
        enum_rows.append(("Rs_" + en, vs))
    for name, kind, rows in _ser_impls(h, top, top_rel):
        sigs.append(("Rs", name, kind, rows))
    L.append("")
    L.append("Definition intro_enum_table : list (string * list (string * N)) := [")
    L.append(";\n".join("  (%s, [%s])" % (h.coq_str(en), "; ".join(f"({h.coq_str(v)}, {d})" for v, d in vs))
                        for en, vs in enum_rows))
    L.append("].")
    L.append("")
    L.append("(* (mode, impl type, kind, rows); struct rows: (method, tag, field); enum rows: (variant, payload tag, id) *)")
    L.append("Definition intro_ser_table : list (string * string * string * list (string * string * string)) := [")
    L.append(";\n".join("  (%s, %s, %s, [%s])" % (h.coq_str(p), h.coq_str(n), h.coq_str(k),
                                                   "; ".join("(%s, %s, %s)" % tuple(h.coq_str(x) for x in r) for r in rows))
                        for p, n, k, rows in sigs))
    L.append("].")
    L.append("")

    # lexical ids
    rel = f"{BASE}/lexical_id.rs"
    lx = h.strip_comments(h.read(rel))
    consts = re.findall(r"pub\s+const\s+(\w+)\s*:\s*Self\s*=\s*Self\(uuid!\(\"([0-9a-fA-F-]+)\"\)\);", lx)
    nss = re.findall(r"pub\s+const\s+(NAMESPACE_\w+)\s*:\s*Uuid\s*=\s*uuid!\(\"([0-9a-fA-F-]+)\"\);", lx)
    if len(consts) < 1 or len(nss) < 1:
        raise h.TieError(f"{rel}: lexical id constants not found")
    for n, u in consts:
        L.append(f"Definition LEX_{n} : list N := {_bytes_coq(_uuid_bytes(h, u, rel))}.")
    for n, u in nss:
        L.append(f"Definition LEX_{n} : list N := {_bytes_coq(_uuid_bytes(h, u, rel))}.")
    L.append("Definition lex_const_names : list string := [%s]." % "; ".join(h.coq_str(n) for n, _ in consts))
    L.append("Definition lex_ns_names : list string := [%s]." % "; ".join(h.coq_str(n) for n, _ in nss))
    ctors = []
    for m in re.finditer(r"pub\s+fn\s+(\w+)\s*(?:<[^>]*>)?\s*\(([^)]*)\)\s*->\s*Self\s*\{", lx):
        body = re.sub(r"\s+", "", lx[m.end():h.match_brace(lx, m.end() - 1) - 1])
        args = re.sub(r"\s+", "", m.group(2))
        mo = re.fullmatch(r"Self::(new_v5|new_v5_2|fully_qualified)\(Self::(NAMESPACE_\w+),(.*)\)", body)
        if mo:
            ctors.append((m.group(1), mo.group(1), mo.group(2), mo.group(3)))
        elif m.group(1) == "array":
            want = ("letmutname=[0;20];name[..16].copy_from_slice(ty.0.as_bytes());"
                    "name[16..].copy_from_slice(&len.to_le_bytes());Self(Uuid::new_v5(&Self::NAMESPACE_ARRAY,&name))")
            if body != want or args != "ty:Self,len:u32":
                raise h.TieError(f"{rel}: LexicalId::array has an unexpected body")
            ctors.append(("array", "uuid_le32", "NAMESPACE_ARRAY", "ty.0,len"))
        else:
            raise h.TieError(f"{rel}: LexicalId::{m.group(1)} has an unexpected body `{body[:80]}`")
    helpers = {
        "new_v5": "Self(Uuid::new_v5(&ns,ty.as_bytes()))",
        "new_v5_2": "letmutname=[0;32];name[..16].copy_from_slice(a.as_bytes());name[16..].copy_from_slice(b.as_bytes());Self(Uuid::new_v5(&ns,&name))",
        "fully_qualified": ("letmutfully_qualified=format!(\"{}::{}\",schema.as_ref(),name.as_ref());ifN>0{fully_qualified.push('<');}"
                            "for(i,ty)intypes.iter().enumerate(){ifi>0{fully_qualified.push(',');}fully_qualified.push_str(&ty.to_string());}"
                            "ifN>0{fully_qualified.push('>');}Self(Uuid::new_v5(&ns,fully_qualified.as_bytes()))"),
    }
    for name, want in helpers.items():
        m = re.search(r"\bfn\s+" + name + r"\s*(?:<[^>]*>)?\s*\([^)]*\)\s*->\s*Self\s*\{", lx)
        if not m:
            raise h.TieError(f"{rel}: helper {name} not found")
        body = re.sub(r"\s+", "", lx[m.end():h.match_brace(lx, m.end() - 1) - 1])
        if body != want:
            raise h.TieError(f"{rel}: helper {name} has an unexpected body")
    m = re.search(r"impl\s+fmt::Display\s+for\s+LexicalId\s*\{", lx)
    if not m or re.sub(r"\s+", "", lx[m.end():h.match_brace(lx, m.end() - 1) - 1]) != \
            "fnfmt(&self,f:&mutfmt::Formatter)->fmt::Result{self.0.fmt(f)}":
        raise h.TieError(f"{rel}: Display for LexicalId is not the uuid's")
    L.append("Definition lex_ctor_table : list (string * string * string * string) := [")
    L.append(";\n".join("  (%s, %s, %s, %s)" % tuple(h.coq_str(x) for x in c) for c in ctors))
    L.append("].")
    L.append("")

    # layout namespaces
    ns_rows = []
    for f, ty in (("built_in_type", "BuiltInTypeIr"), ("struct_ty", "StructIr"), ("enum_ty", "EnumIr"),
                  ("service", "ServiceIr"), ("newtype", "NewtypeIr")):
        rel = f"{BASE}/ir/{f}.rs"
        src = h.strip_comments(h.read(rel))
        m = re.search(r"pub\s+const\s+NAMESPACE\s*:\s*Uuid\s*=\s*uuid!\(\"([0-9a-fA-F-]+)\"\);", src)
        if not m:
            raise h.TieError(f"{rel}: NAMESPACE not found")
        L.append(f"Definition NS_{ty} : list N := {_bytes_coq(_uuid_bytes(h, m.group(1), rel))}.")
    rel = f"{BASE}/ir/layout.rs"
    src = h.strip_comments(h.read(rel))
    m = re.search(r"pub\s+fn\s+namespace\s*\(&self\)\s*->\s*Uuid\s*\{", src)
    if not m:
        raise h.TieError(f"{rel}: LayoutIr::namespace not found")
    body = re.sub(r"\s+", "", src[m.end():h.match_brace(src, m.end() - 1) - 1])
    mo = re.fullmatch(r"matchself\{((?:Self::\w+\(_\)=>\w+::NAMESPACE,)+)\}", body)
    if not mo:
        raise h.TieError(f"{rel}: LayoutIr::namespace has an unexpected body")
    ns_rows = re.findall(r"Self::(\w+)\(_\)=>(\w+)::NAMESPACE,", mo.group(1))
    L.append("Definition layout_namespace_table : list (string * string) := [%s]." %
             "; ".join(f"({h.coq_str(a)}, {h.coq_str(b)})" for a, b in ns_rows))

    # BuiltInTypeIr::lexical_id
    rel = f"{BASE}/ir/built_in_type.rs"
    src = h.strip_comments(h.read(rel))
    m = re.search(r"pub\s+fn\s+lexical_id\s*\(self\)\s*->\s*LexicalId\s*\{", src)
    if not m:
        raise h.TieError(f"{rel}: BuiltInTypeIr::lexical_id not found")
    body = re.sub(r"\s+", "", src[m.end():h.match_brace(src, m.end() - 1) - 1])
    mo = re.fullmatch(r"matchself\{(.*)\}", body)
    if not mo:
        raise h.TieError(f"{rel}: BuiltInTypeIr::lexical_id has an unexpected body")
    arms = re.findall(r"Self::(\w+)(?:\((\w+)\))?=>LexicalId::(\w+)(\([\w.(),]*\))?,", mo.group(1))
    if "".join(f"Self::{a}{'(' + b + ')' if b else ''}=>LexicalId::{c}{d}," for a, b, c, d in arms) != mo.group(1):
        raise h.TieError(f"{rel}: BuiltInTypeIr::lexical_id has an unexpected arm")
    L.append("Definition builtin_lexical_table : list (string * string * string) := [")
    L.append(";\n".join(f"  ({h.coq_str(a)}, {h.coq_str(c)}, {h.coq_str(d)})" for a, b, c, d in arms))
    L.append("].")

    # lexical ids of the custom layouts and the closure in type_id.rs
    for f, ty, ctor in (("struct_ty", "StructIr", "custom"), ("enum_ty", "EnumIr", "custom"),
                        ("newtype", "NewtypeIr", "custom"), ("service", "ServiceIr", "service")):
        rel = f"{BASE}/ir/{f}.rs"
        src = h.strip_comments(h.read(rel))
        m = re.search(r"pub\s+fn\s+lexical_id\s*\(&self\)\s*->\s*LexicalId\s*\{", src)
        body = re.sub(r"\s+", "", src[m.end():h.match_brace(src, m.end() - 1) - 1]) if m else None
        if body != f"LexicalId::{ctor}(&self.schema,&self.name)":
            raise h.TieError(f"{rel}: {ty}::lexical_id has an unexpected body")
    rel = f"{BASE}/type_id.rs"
    src = h.strip_comments(h.read(rel))
    m = re.search(r"pub\s+fn\s+compute_from_dyn\s*\(ty:\s*DynIntrospectable\)\s*->\s*Self\s*\{", src)
    want = ("letmutcompute=Compute::new(&ty.layout());letmutreferences=Vec::new();"
            "ty.add_references(&mutReferences::new(&mutreferences));"
            "whileletSome(ty)=references.pop(){ifcompute.add(&ty.layout()){"
            "ty.add_references(&mutReferences::new(&mutreferences));}}"
            "letserialized=SerializedValue::serialize(&compute).unwrap();"
            "Self(Uuid::new_v5(&compute.namespace(),&serialized))")
    if not m or re.sub(r"\s+", "", src[m.end():h.match_brace(src, m.end() - 1) - 1]) != want:
        raise h.TieError(f"{rel}: TypeId::compute_from_dyn has an unexpected body")
    m = re.search(r"\bfn\s+add\s*\(&mut\s+self,\s*layout:\s*&ir::LayoutIr\)\s*->\s*bool\s*\{", src)
    if not m or re.sub(r"\s+", "", src[m.end():h.match_brace(src, m.end() - 1) - 1]) != \
            "self.referenced.insert(SerializedValue::serialize(layout).unwrap())":
        raise h.TieError(f"{rel}: Compute::add has an unexpected body")
    if not re.search(r"referenced\s*:\s*BTreeSet<SerializedValue>", src):
        raise h.TieError(f"{rel}: Compute::referenced is not a BTreeSet<SerializedValue>")
    return "\n".join(L) + "\n"
